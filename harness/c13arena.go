package main

// c13arena — K-tie of the Lean compaction model (Naga.Model.Compact) with the real
// ir.CompactExpressions: random expression arenas (literal / negate / add / select / local
// variable nodes with backward operands) with random roots (store values, if conditions, return
// value, named expressions, local initialisers) are built as real ir.Function values; the arena
// and the root handles after the real pass are compared with the model's compact / remap.

import (
	"fmt"
	"strings"

	"github.com/gogpu/naga/ir"
)

func arenaNodes(f *ir.Function) string {
	var b strings.Builder
	for _, e := range f.Expressions {
		switch k := e.Kind.(type) {
		case ir.Literal:
			b.WriteString(" (0)")
		case ir.ExprUnary:
			fmt.Fprintf(&b, " (1 %d)", k.Expr)
		case ir.ExprBinary:
			fmt.Fprintf(&b, " (2 %d %d)", k.Left, k.Right)
		case ir.ExprSelect:
			fmt.Fprintf(&b, " (3 %d %d %d)", k.Condition, k.Accept, k.Reject)
		case ir.ExprLocalVariable:
			b.WriteString(" (4)")
		default:
			b.WriteString(" (9)")
		}
	}
	return b.String()
}

// rootsOf: the handles referenced by statements / named expressions / local initialisers, in a
// fixed traversal order (so that before and after can be matched position by position).
func rootsOf(f *ir.Function) []ir.ExpressionHandle {
	var out []ir.ExpressionHandle
	for _, lv := range f.LocalVars {
		if lv.Init != nil {
			out = append(out, *lv.Init)
		}
	}
	var walk func(b ir.Block)
	walk = func(b ir.Block) {
		for _, s := range b {
			switch k := s.Kind.(type) {
			case ir.StmtStore:
				out = append(out, k.Pointer, k.Value)
			case ir.StmtIf:
				out = append(out, k.Condition)
				walk(k.Accept)
				walk(k.Reject)
			case ir.StmtReturn:
				if k.Value != nil {
					out = append(out, *k.Value)
				}
			case ir.StmtBlock:
				walk(k.Block)
			}
		}
	}
	walk(f.Body)
	return out
}

func cmdC13Arena(c *ctx) {
	for i := 0; i < c.n; i++ {
		n := 1 + c.rng.Intn(24)
		f := ir.Function{Name: "f", LocalVars: []ir.LocalVariable{{Name: "v", Type: 0}}, NamedExpressions: map[ir.ExpressionHandle]string{}}
		f.Expressions = append(f.Expressions, ir.Expression{Kind: ir.ExprLocalVariable{Variable: 0}})
		for j := 1; j < n; j++ {
			pick := func() ir.ExpressionHandle { return ir.ExpressionHandle(c.rng.Intn(j)) }
			switch c.rng.Intn(6) {
			case 0, 1:
				f.Expressions = append(f.Expressions, ir.Expression{Kind: ir.Literal{Value: ir.LiteralI32(int32(j))}})
			case 2:
				f.Expressions = append(f.Expressions, ir.Expression{Kind: ir.ExprUnary{Op: ir.UnaryNegate, Expr: pick()}})
			case 3, 4:
				f.Expressions = append(f.Expressions, ir.Expression{Kind: ir.ExprBinary{Op: ir.BinaryAdd, Left: pick(), Right: pick()}})
			default:
				f.Expressions = append(f.Expressions, ir.Expression{Kind: ir.ExprSelect{Condition: pick(), Accept: pick(), Reject: pick()}})
			}
		}
		// emit ranges: maximal runs of expressions that need emission
		var body ir.Block
		start := -1
		flush := func(end int) {
			if start >= 0 {
				body = append(body, ir.Statement{Kind: ir.StmtEmit{Range: ir.Range{Start: ir.ExpressionHandle(start), End: ir.ExpressionHandle(end)}}})
				start = -1
			}
		}
		for j, e := range f.Expressions {
			switch e.Kind.(type) {
			case ir.Literal, ir.ExprLocalVariable:
				flush(j)
			default:
				if start < 0 {
					start = j
				}
			}
		}
		flush(len(f.Expressions))
		// roots
		h := func() ir.ExpressionHandle { return ir.ExpressionHandle(c.rng.Intn(n)) }
		for k, nr := 0, c.rng.Intn(4); k < nr; k++ {
			switch c.rng.Intn(4) {
			case 0:
				body = append(body, ir.Statement{Kind: ir.StmtStore{Pointer: 0, Value: h()}})
			case 1:
				body = append(body, ir.Statement{Kind: ir.StmtIf{Condition: h(), Accept: ir.Block{{Kind: ir.StmtStore{Pointer: 0, Value: h()}}}}})
			case 2:
				f.NamedExpressions[h()] = fmt.Sprintf("n%d", k)
			default:
				x := h()
				f.LocalVars[0].Init = &x
			}
		}
		if c.chance(0.3) {
			x := h()
			body = append(body, ir.Statement{Kind: ir.StmtReturn{Value: &x}})
		}
		f.Body = body
		before := arenaNodes(&f)
		rootsB := rootsOf(&f)
		var named []string
		for hh := range f.NamedExpressions {
			named = append(named, fmt.Sprint(uint32(hh)))
		}
		// sort named handles for a canonical case line
		for a := 0; a < len(named); a++ {
			for b := a + 1; b < len(named); b++ {
				if len(named[b]) < len(named[a]) || (len(named[b]) == len(named[a]) && named[b] < named[a]) {
					named[a], named[b] = named[b], named[a]
				}
			}
		}
		m := &ir.Module{Functions: []ir.Function{f}}
		r := guard("CompactExpressions", func() error { ir.CompactExpressions(m); return nil })
		if r.err != "" {
			c.line("cases.txt", "(arena-skip)")
			c.line("impl.txt", "panic "+r.err)
			continue
		}
		g := &m.Functions[0]
		rootsA := rootsOf(g)
		rb := make([]string, len(rootsB))
		for k, x := range rootsB {
			rb[k] = fmt.Sprint(uint32(x))
		}
		ra := make([]string, len(rootsA))
		for k, x := range rootsA {
			ra[k] = fmt.Sprint(uint32(x))
		}
		c.line("cases.txt", fmt.Sprintf("(arena (nodes%s) (roots %s) (named %s))", before, strings.Join(rb, " "), strings.Join(named, " ")))
		c.line("impl.txt", fmt.Sprintf("nodes%s | roots %s", arenaNodes(g), strings.Join(ra, " ")))
		c.count(fmt.Sprintf("arena-size:%d", (n/8)*8))
		if len(g.Expressions) < n {
			c.count("arenas-with-dead-nodes")
		}
	}
}

func init() { commands["c13arena"] = cmdC13Arena }
