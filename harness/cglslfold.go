package main

// cglslfold — tie of Naga.Model.GlslFold (write-time constant evaluation of integer expressions in the GLSL writer) with
// the real writer: for every constant-fold probe the text is compiled, read by the independent parser, and for every
// stored expression it is decided whether the writer folded it to a literal, and to which value.  The model must take the
// same decision and give the same value (Props/GlslFold.fold_sound is about the model).

import (
	"fmt"
	"strings"

	"github.com/gogpu/naga/glsl"
)

// initSexp: the generator expression as a Naga.Override.Init term; x is (ref 0), KF is (ref 1).
func initSexp(e *wexpr) string {
	switch e.k {
	case "lit":
		if e.ty.k == "i32" {
			return fmt.Sprintf("(lit %d)", int32(e.bits))
		}
		return fmt.Sprintf("(lit %d)", e.bits)
	case "var":
		if e.name == "x" {
			return "(ref 0)"
		}
		return "(ref 1)"
	case "bin":
		op := map[string]string{"+": "add", "-": "sub", "*": "mul", "/": "div"}[e.op]
		return fmt.Sprintf("(bin %s %s %s)", op, initSexp(e.args[0]), initSexp(e.args[1]))
	case "un":
		op := map[string]string{"-": "neg", "~": "bnot"}[e.op]
		return fmt.Sprintf("(un %s %s)", op, initSexp(e.args[0]))
	}
	return "(bad)"
}

// literalValue: the node is an integer literal, possibly negated and possibly wrapped in uint( ) / int( ) casts.
func literalValue(n *snode) (int64, bool) {
	if n == nil || !n.list || len(n.kids) == 0 {
		return 0, false
	}
	switch n.head() {
	case "int", "uint":
		var v int64
		if _, err := fmt.Sscan(n.kids[1].atom, &v); err != nil {
			return 0, false
		}
		return v, true
	case "un":
		if n.kids[1].atom == "-" {
			v, ok := literalValue(n.kids[2])
			return -v, ok
		}
	case "call", "cast":
		if len(n.kids) == 3 {
			nm := n.kids[1].atom
			if n.kids[1].list && len(n.kids[1].kids) > 1 {
				nm = n.kids[1].kids[1].atom
			}
			if nm == "uint" || nm == "int" {
				return literalValue(n.kids[2])
			}
		}
	}
	return 0, false
}

func cmdCGlslFold(c *ctx) {
	for _, p := range constFoldModules() {
		src := p.m.wgsl()
		mod, _ := frontEnd(src)
		if mod == nil {
			c.count("rejected")
			continue
		}
		var text string
		r := guard("glsl", func() error {
			s, _, err := glsl.Compile(mod, glsl.Options{LangVersion: glsl.Version430, EntryPoint: "main"})
			text = s
			return err
		})
		if r.err != "" {
			c.count("backend-error")
			continue
		}
		unit, perr := cparse(text)
		if perr != nil {
			c.count("cparse-error")
			continue
		}
		var mainFn *snode
		for _, f := range funcsOf(sparse(unit)) {
			if strings.TrimSuffix(f.kids[3].atom, "_") == "main" {
				mainFn = f
			}
		}
		if mainFn == nil {
			c.count("no-main")
			continue
		}
		// stores `_group_0_binding_1_cs[i] = RHS;` in order
		rhs := map[int]*snode{}
		var walk func(n *snode)
		walk = func(n *snode) {
			if n == nil || !n.list {
				return
			}
			if n.head() == "asg" && len(n.kids) == 4 && n.kids[2].list && n.kids[2].head() == "idx" {
				if i, ok := literalValue(n.kids[2].kids[2]); ok && strings.Contains(n.kids[2].kids[1].kids[1].atom, "binding_1") {
					rhs[int(i)] = n.kids[3]
				}
			}
			for _, k := range n.kids {
				walk(k)
			}
		}
		walk(mainFn.kids[5])
		signed := p.t.k == "i32"
		xv, kv := int64(p.x), int64(p.k)
		if signed {
			xv, kv = int64(int32(p.x)), int64(int32(p.k))
		}
		for i, f := range p.forms {
			n, ok := rhs[i]
			if !ok {
				c.count("store-not-found")
				continue
			}
			impl := "nofold"
			if v, isLit := literalValue(n); isLit {
				if signed {
					v = int64(int32(v))
				} else {
					v = int64(uint32(v))
				}
				impl = fmt.Sprintf("fold %d", v)
			}
			c.line("cases.txt", fmt.Sprintf("(glslfold %v %s %d %d)", signed, initSexp(f), xv, kv))
			c.line("impl.txt", impl)
			c.line("src.txt", q(src))
			c.line("text.txt", q(text))
			c.count("exprs")
			c.count(strings.Fields(impl)[0])
		}
	}
}

func init() { commands["cglslfold"] = cmdCGlslFold }
