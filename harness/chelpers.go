package main

// chelpers — exact-overload check for the helper functions the HLSL and MSL writers define
// (naga_div, naga_mod, naga_neg, naga_abs, naga_f2i32, …).  C-family overload resolution silently
// converts arguments when no overload matches exactly (int64_t -> int truncates), so every call of a
// helper must have an overload whose parameter types are exactly the static types of the arguments.
// Programs mix scalar widths and vector sizes in random statement order (the helpers are emitted
// lazily, keyed by type).  The static type of an argument is read from the emitted text itself:
// declared type of a local, a constructor / cast / bit-cast spelling.

import (
	"fmt"
	"regexp"
	"strings"
)

var chScalars = []string{"i32", "u32", "i64", "u64", "f32"}

func chProgram(c *ctx) string {
	var b strings.Builder
	n := 3 + c.rng.Intn(5)
	type slot struct{ ty string }
	var fields []string
	var stmts []string
	for i := 0; i < n; i++ {
		sc := chScalars[c.rng.Intn(len(chScalars))]
		ty := sc
		if c.chance(0.35) {
			ty = fmt.Sprintf("vec%d<%s>", 2+c.rng.Intn(2), sc)
		}
		ops := []string{"/", "%"}
		if sc == "f32" {
			ops = []string{"%"}
		}
		op := ops[c.rng.Intn(len(ops))]
		fields = append(fields, fmt.Sprintf("a%d: %s, b%d: %s, r%d: %s", i, ty, i, ty, i, ty))
		st := fmt.Sprintf("  buf.r%d = buf.a%d %s buf.b%d;", i, i, op, i)
		if (sc == "i32" || sc == "i64") && c.chance(0.45) {
			if c.chance(0.5) {
				st = fmt.Sprintf("  buf.r%d = -buf.a%d;", i, i)
			} else {
				st = fmt.Sprintf("  buf.r%d = abs(buf.a%d);", i, i)
			}
		}
		stmts = append(stmts, st)
	}
	fmt.Fprintf(&b, "struct Buf { %s }\n@group(0) @binding(0) var<storage, read_write> buf: Buf;\n", strings.Join(fields, ", "))
	if c.chance(0.5) {
		// split over a helper function and the entry point: the helper set is module-wide
		k := 1 + c.rng.Intn(len(stmts)-1)
		fmt.Fprintf(&b, "fn part() {\n%s\n}\n", strings.Join(stmts[:k], "\n"))
		fmt.Fprintf(&b, "@compute @workgroup_size(1)\nfn main() {\n  part();\n%s\n}\n", strings.Join(stmts[k:], "\n"))
	} else {
		fmt.Fprintf(&b, "@compute @workgroup_size(1)\nfn main() {\n%s\n}\n", strings.Join(stmts, "\n"))
	}
	return b.String()
}

var chTypeName = regexp.MustCompile(`^(metal::)?(packed_)?(bool|int|uint|float|half|double|long|ulong|int64_t|uint64_t|short|ushort)([2-4])?$`)

func chNormType(name string) string {
	m := chTypeName.FindStringSubmatch(name)
	if m == nil {
		return ""
	}
	base := m[3]
	switch base {
	case "int64_t":
		base = "long"
	case "uint64_t":
		base = "ulong"
	}
	return base + m[4]
}

// chStaticType: static type of an expression of the emitted text, "" when it cannot be told locally.
func chStaticType(n *snode, locals map[string]string) string {
	n = stripParen(n)
	switch n.head() {
	case "id":
		return locals[n.kids[1].atom]
	case "cast":
		if n.kids[1].head() == "ty" {
			return chNormType(n.kids[1].kids[1].atom)
		}
	case "tcall":
		if n.kids[2].head() == "ty" {
			return chNormType(n.kids[2].kids[1].atom)
		}
	case "call":
		name := n.kids[1].atom
		if t := chNormType(name); t != "" {
			return t
		}
		arg := ""
		if len(n.kids) > 2 {
			arg = chStaticType(n.kids[2], locals)
		}
		size := ""
		if len(arg) > 0 && arg[len(arg)-1] >= '2' && arg[len(arg)-1] <= '4' {
			size = arg[len(arg)-1:]
		}
		wide := strings.HasPrefix(arg, "long") || strings.HasPrefix(arg, "ulong")
		switch name {
		case "asint":
			if wide {
				return "long" + size
			}
			if arg != "" {
				return "int" + size
			}
		case "asuint":
			if wide {
				return "ulong" + size
			}
			if arg != "" {
				return "uint" + size
			}
		case "asfloat":
			if arg != "" {
				return "float" + size
			}
		}
	}
	return ""
}

func chWalk(n *snode, locals map[string]string, overloads map[string][][]string, missing *[]string, stats map[string]int) {
	if n == nil || !n.list {
		return
	}
	if n.head() == "decl" && len(n.kids) >= 4 && n.kids[2].head() == "ty" {
		locals[n.kids[3].atom] = chNormType(n.kids[2].kids[1].atom)
	}
	if n.head() == "call" {
		name := n.kids[1].atom
		if ovs, ok := overloads[name]; ok {
			var ats []string
			unknown := false
			for _, a := range n.kids[2:] {
				t := chStaticType(a, locals)
				if t == "" {
					unknown = true
				}
				ats = append(ats, t)
			}
			if unknown {
				stats["calls-with-unknown-argument-type"]++
			} else {
				stats["calls-resolved"]++
				found := false
				for _, ov := range ovs {
					if strings.Join(ov, ",") == strings.Join(ats, ",") {
						found = true
					}
				}
				if !found {
					*missing = append(*missing, fmt.Sprintf("%s(%s): declared overloads %v", name, strings.Join(ats, ", "), ovs))
				}
			}
		}
	}
	for i, k := range n.kids {
		if i == 0 && !k.list {
			continue
		}
		chWalk(k, locals, overloads, missing, stats)
	}
}

func cmdCHelpers(c *ctx) {
	dialect := "hlsl"
	if len(c.args) > 0 {
		dialect = c.args[0]
	}
	for i := 0; i < c.n; i++ {
		src := chProgram(c)
		mod, res := frontEnd(src)
		if mod == nil {
			c.count("rejected")
			c.line("rejected.txt", q(fmt.Sprint(res))+" "+q(src))
			continue
		}
		text, _, cerr := emitC(c, dialect, mod)
		if cerr != "" {
			c.count("backend-error")
			c.line("backend-errors.txt", q(cerr)+" "+q(src))
			continue
		}
		unit, perr := cparse(text)
		if perr != nil {
			c.count("cparse-error")
			c.line("cparse-errors.txt", q(perr.Error())+" "+q(text))
			continue
		}
		u := sparse(unit)
		overloads := map[string][][]string{}
		for _, f := range funcsOf(u) {
			name := f.kids[3].atom
			if !strings.HasPrefix(name, "naga_") {
				continue
			}
			var ps []string
			for _, p := range f.kids[4].kids {
				t := ""
				if p.kids[2].head() == "ty" {
					t = chNormType(p.kids[2].kids[1].atom)
				}
				ps = append(ps, t)
			}
			overloads[name] = append(overloads[name], ps)
		}
		var missing []string
		stats := map[string]int{}
		for _, f := range funcsOf(u) {
			locals := map[string]string{}
			for _, p := range f.kids[4].kids {
				if p.kids[2].head() == "ty" {
					locals[p.kids[3].atom] = chNormType(p.kids[2].kids[1].atom)
				}
			}
			chWalk(f.kids[5], locals, overloads, &missing, stats)
		}
		for k, v := range stats {
			c.stats[k] += v
		}
		c.count("programs")
		if len(missing) > 0 {
			c.count("missing-overload")
			c.line("missing.txt", q(strings.Join(missing, "; "))+" "+q(src)+" "+q(text))
		}
	}
}

func init() { commands["chelpers"] = cmdCHelpers }
