package main

// C16 — identifiers.  Keyword-table dumps (regenerated Lean facts) and namer op sequences.

import (
	"fmt"
	"sort"
	"strings"

	"github.com/gogpu/naga/glsl"
	"github.com/gogpu/naga/hlsl"
	"github.com/gogpu/naga/msl"
)

func c16Tables() map[string][]string {
	hs, hi := hlsl.VerifKeywords()
	return map[string][]string{
		"hlslSensitive":   hs,
		"hlslInsensitive": hi,
		"hlslPreReserved": hlsl.VerifPreReserved(),
		"msl":             msl.VerifKeywords(),
		"glsl":            glsl.VerifKeywords(),
	}
}

var labelPool = []string{
	"a", "b", "x", "v", "main", "main_", "main_1", "float", "float4", "Float", "FLOAT", "int", "uint", "half",
	"naga_div", "naga_mod", "naga_abs", "naga_neg", "naga_f2i32", "_e1", "_e12", "type_1", "type_2", "local", "local_1",
	"loop_bound", "metal", "gl_Position", "gl_foo", "texture", "sampler", "buffer", "kernel", "vertex", "fragment",
	"vec4", "mat4", "mat4x4", "struct", "class", "template", "typename", "using", "namespace", "operator", "register",
	"cbuffer", "Texture2D", "SamplerState", "discard", "asm", "and", "or", "not", "xor", "input", "output", "in", "out",
	"inout", "uniform", "layout", "precision", "highp", "x1", "x1_", "x_1", "x__1", "a_b", "a__b", "a___b", "_", "__", "_a",
	"__a", "a_", "a__", "9", "9a", "99_a", "_9", "é", "été", "π", "λx", "变量", "x́", "unnamed", "unnamed_1",
	"param", "global", "member", "function", "const", "static", "extern", "volatile", "A", "a1", "A1", "a1_1", "a_1_1",
	"LINE", "line", "Line", "point", "POINT", "triangle", "TRIANGLE", "sample", "SAMPLE", "centroid", "linear", "NULL", "null",
	"true", "false", "if", "else", "for", "while", "do", "switch", "case", "default", "break", "continue", "return",
	"packed_float3", "float3x3", "atomic_int", "threadgroup", "device", "constant", "thread", "M_PI_F", "INFINITY", "NAN",
	"dot", "cross", "min", "max", "clamp", "abs", "sign", "select", "mix", "step", "pow", "exp", "log", "sqrt",
	// stems of the reserved prefixes: `gl` + the collision suffix `_1` would be `gl_1`
	"gl", "gl_", "gen", "gen_", "gen_gl", "naga", "naga_", "_naga", "type", "type_", "_e", "_group", "_group_", "local_", "sv", "SV", "SV_", "ret", "ret_",
	"a:b", "a<b>", "a,b", "a b", ":1", "<1", "a:", "::", "std::x", "f<i32>", "a-b", "a.b", "a+b", "$", "a$b", "\t", " ",
}

func (c *ctx) label() string {
	if c.chance(0.75) {
		s := labelPool[c.rng.Intn(len(labelPool))]
		if c.chance(0.15) {
			s += fmt.Sprint(c.rng.Intn(12))
		}
		if c.chance(0.1) {
			s += "_"
		}
		if c.chance(0.1) {
			s = strings.ToUpper(s)
		}
		return s
	}
	const alpha = "abAB01_9zé:λ<"
	rs := []rune(alpha)
	n := c.rng.Intn(6)
	var b strings.Builder
	for i := 0; i < n; i++ {
		b.WriteRune(rs[c.rng.Intn(len(rs))])
	}
	return b.String()
}

func cmdC16(c *ctx) {
	// --- regenerated tables -------------------------------------------------------------
	tabs := c16Tables()
	names := make([]string, 0, len(tabs))
	for k := range tabs {
		names = append(names, k)
	}
	sort.Strings(names)
	for _, k := range names {
		var b strings.Builder
		for _, w := range tabs[k] {
			b.WriteString(q(w))
			b.WriteByte(' ')
		}
		c.line("tables.txt", fmt.Sprintf("(%s %s)", k, b.String()))
	}
	// --- sanitize on single labels ----------------------------------------------------------
	var labels []string
	labels = append(labels, labelPool...)
	for _, k := range names {
		ws := tabs[k]
		for i := 0; i < 40 && i < len(ws); i++ {
			w := ws[c.rng.Intn(len(ws))]
			labels = append(labels, w, strings.ToUpper(w), strings.ToLower(w), w+"_", w+"1", w+"_1")
		}
	}
	for i := 0; i < c.n; i++ {
		labels = append(labels, c.label())
	}
	hn := hlsl.NewVerifNamer()
	for _, l := range labels {
		c.line("cases.txt", fmt.Sprintf("(sanitize %s)", q(l)))
		c.line("impl.txt", fmt.Sprintf("hlsl=%s msl=%s glsl=%s", q(hn.Sanitize(l)), q(msl.VerifSanitize(l)), q(glsl.VerifSanitize(l))))
		c.count("sanitize")
	}
	// --- op sequences -----------------------------------------------------------------------
	for i := 0; i < c.n; i++ {
		k := 1 + c.rng.Intn(25)
		// small pool per sequence so that collisions are frequent
		pool := make([]string, 2+c.rng.Intn(5))
		for j := range pool {
			pool[j] = c.label()
		}
		for _, d := range []string{"hlsl", "msl", "glsl"} {
			var ops []string
			var outs []string
			switch d {
			case "hlsl":
				n := hlsl.NewVerifNamer()
				depth := 0
				var run func(rem int)
				run = func(rem int) {
					for j := 0; j < rem; j++ {
						l := pool[c.rng.Intn(len(pool))]
						switch r := c.rng.Intn(12); {
						case r < 8:
							ops = append(ops, "(call "+q(l)+")")
							outs = append(outs, q(n.Call(l)))
						case r < 9:
							ops = append(ops, "(reserve "+q(l)+")")
							n.Reserve(l)
						case r < 10:
							ops = append(ops, "(reset)")
							n.Reset()
						default:
							if depth < 2 {
								ops = append(ops, "(ns-enter)")
								depth++
								n.Namespace(func() { run(c.rng.Intn(5)) })
								depth--
								ops = append(ops, "(ns-exit)")
							}
						}
					}
				}
				run(k)
			case "msl":
				n := msl.NewVerifNamer()
				for j := 0; j < k; j++ {
					l := pool[c.rng.Intn(len(pool))]
					ops = append(ops, "(call "+q(l)+")")
					outs = append(outs, q(n.Call(l)))
				}
			case "glsl":
				n := glsl.NewVerifNamer()
				for j := 0; j < k; j++ {
					l := pool[c.rng.Intn(len(pool))]
					ops = append(ops, "(call "+q(l)+")")
					outs = append(outs, q(n.Call(l)))
				}
			}
			c.line("cases.txt", fmt.Sprintf("(namer %s %s)", d, strings.Join(ops, " ")))
			c.line("impl.txt", strings.Join(outs, " "))
			c.count("namer-" + d)
		}
	}
}

func init() { commands["c16"] = cmdC16 }
