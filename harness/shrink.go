package main

// shrink: greedy AST reducer for generated modules.  pred reports whether the (re-rendered)
// module still exhibits the behaviour of interest.

func zeroOf(t *wty) *wexpr {
	switch t.k {
	case "i32", "u32", "f32", "bool":
		return &wexpr{k: "lit", ty: t, bits: 0, konst: true, small: true}
	case "vec":
		return &wexpr{k: "cons", ty: t, args: []*wexpr{zeroOf(t.elem)}, konst: true}
	}
	return nil
}

// stmtLists returns pointers to every statement list in the module (for deletion attempts).
func (m *wmodule) stmtLists() []*[]*wstmt {
	var out []*[]*wstmt
	var walk func(l *[]*wstmt)
	walk = func(l *[]*wstmt) {
		out = append(out, l)
		for _, s := range *l {
			if s.body != nil {
				walk(&s.body)
			}
			if s.els != nil {
				walk(&s.els)
			}
			for i := range s.cases {
				walk(&s.cases[i].body)
			}
		}
	}
	for _, f := range m.funcs {
		walk(&f.body)
	}
	walk(&m.entry.body)
	return out
}

// exprSlots returns setters for every expression position in the module.
func (m *wmodule) exprSlots() []**wexpr {
	var out []**wexpr
	var we func(p **wexpr)
	we = func(p **wexpr) {
		if *p == nil {
			return
		}
		out = append(out, p)
		for i := range (*p).args {
			we(&(*p).args[i])
		}
	}
	var ws func(l []*wstmt)
	ws = func(l []*wstmt) {
		for _, s := range l {
			we(&s.e)
			we(&s.brk)
			if s.lhs != nil {
				for i := range s.lhs.args {
					if i > 0 { // index expressions inside lvalues
						we(&s.lhs.args[i])
					}
				}
			}
			if s.init != nil {
				we(&s.init.e)
			}
			ws(s.body)
			ws(s.els)
			for _, c := range s.cases {
				ws(c.body)
			}
		}
	}
	for _, f := range m.funcs {
		ws(f.body)
	}
	ws(m.entry.body)
	return out
}

func shrinkModule(m *wmodule, pred func(src string) bool) {
	if !pred(m.wgsl()) {
		return
	}
	rounds := 0
	for changed := true; changed && rounds < 12; rounds++ {
		changed = false
		// drop whole helper functions (only succeeds if unreferenced or pred tolerates)
		for i := 0; i < len(m.funcs); i++ {
			saved := m.funcs
			m.funcs = append(append([]*wfunc{}, m.funcs[:i]...), m.funcs[i+1:]...)
			if pred(m.wgsl()) {
				changed = true
				i--
			} else {
				m.funcs = saved
			}
		}
		// delete statements
		for _, l := range m.stmtLists() {
			for i := 0; i < len(*l); i++ {
				saved := *l
				*l = append(append([]*wstmt{}, saved[:i]...), saved[i+1:]...)
				if pred(m.wgsl()) {
					changed = true
					i--
				} else {
					*l = saved
				}
			}
		}
		// hoist bodies: replace a compound statement by its body
		for _, l := range m.stmtLists() {
			for i := 0; i < len(*l); i++ {
				s := (*l)[i]
				if s.body == nil || s.k == "switch" {
					continue
				}
				saved := *l
				nl := append(append([]*wstmt{}, saved[:i]...), s.body...)
				nl = append(nl, saved[i+1:]...)
				*l = nl
				if pred(m.wgsl()) {
					changed = true
				} else {
					*l = saved
				}
			}
		}
		// simplify expressions
		for _, p := range m.exprSlots() {
			e := *p
			if e.k == "lit" || e.k == "var" || isZeroForm(e) {
				continue
			}
			// try a same-typed sub-expression, then a zero
			done := false
			for _, a := range e.args {
				if a.ty != nil && e.ty != nil && a.ty.eq(e.ty) && a.k != "addr" {
					*p = a
					if pred(m.wgsl()) {
						changed, done = true, true
						break
					}
					*p = e
				}
			}
			if done {
				continue
			}
			if e.ty != nil {
				if z := zeroOf(e.ty); z != nil {
					*p = z
					if pred(m.wgsl()) {
						changed = true
						continue
					}
					*p = e
				}
			}
		}
		// drop globals / consts / structs that are no longer needed
		for i := 2; i < len(m.globals); i++ {
			saved := m.globals
			m.globals = append(append([]*wglobal{}, saved[:i]...), saved[i+1:]...)
			if pred(m.wgsl()) {
				changed = true
				i--
			} else {
				m.globals = saved
			}
		}
		for i := 0; i < len(m.consts); i++ {
			saved := m.consts
			m.consts = append(append([]*wstmt{}, saved[:i]...), saved[i+1:]...)
			if pred(m.wgsl()) {
				changed = true
				i--
			} else {
				m.consts = saved
			}
		}
		for i := 0; i < len(m.structs); i++ {
			saved := m.structs
			m.structs = append(append([]*wty{}, saved[:i]...), saved[i+1:]...)
			if pred(m.wgsl()) {
				changed = true
				i--
			} else {
				m.structs = saved
			}
		}
	}
}

func isZeroForm(e *wexpr) bool {
	return e.k == "cons" && len(e.args) == 1 && e.args[0].k == "lit" && e.args[0].bits == 0
}
