package main

// c01witness: hand-built ASTs of the recorded witnesses of open findings, run through the same
// spvsem comparison on every run so that each finding keeps being reproduced (or is reported stale).

import (
	"fmt"

	"github.com/gogpu/naga/spirv"
)

func wLitU(v uint32) *wexpr { return &wexpr{k: "lit", ty: tU32, bits: v, konst: true} }
func wLitI(v uint32) *wexpr { return &wexpr{k: "lit", ty: tI32, bits: v, konst: true} }
func wInp(i uint32) *wexpr {
	return &wexpr{k: "idx", ty: tU32, args: []*wexpr{{k: "var", ty: tArr(0, tU32), name: "inp"}, wLitU(i)}}
}
func wOut(i uint32) *wexpr {
	return &wexpr{k: "idx", ty: tU32, args: []*wexpr{{k: "var", ty: tArr(0, tU32), name: "outp"}, wLitU(i)}}
}
func wStore(i uint32, e *wexpr) *wstmt { return &wstmt{k: "assign", lhs: wOut(i), e: e} }
func wBin(t *wty, op string, a, b *wexpr) *wexpr {
	return &wexpr{k: "bin", ty: t, op: op, args: []*wexpr{a, b}}
}
func wCall(t *wty, name string, args ...*wexpr) *wexpr {
	return &wexpr{k: "call", ty: t, name: name, args: args}
}
func wBitcast(t *wty, a *wexpr) *wexpr { return &wexpr{k: "bitcast", ty: t, args: []*wexpr{a}} }

func baseWitness(body []*wstmt, globals ...*wglobal) *wmodule {
	m := &wmodule{wg: 1}
	m.globals = append(m.globals,
		&wglobal{name: "inp", space: "storage_r", ty: tU32, rt: true, binding: 0},
		&wglobal{name: "outp", space: "storage_rw", ty: tU32, rt: true, binding: 1})
	m.globals = append(m.globals, globals...)
	m.entry = &wfunc{name: "main", body: body}
	return m
}

type witness struct {
	knob string
	m    *wmodule
	inp  []uint32
}

func c01Witnesses() []witness {
	inp := func(vs ...uint32) []uint32 {
		out := make([]uint32, 16)
		copy(out, vs)
		return out
	}
	sel := func(b *wexpr) *wexpr { return wCall(tU32, "select", wLitU(0), wLitU(1), b) }
	return []witness{
		{"rawShift", baseWitness([]*wstmt{wStore(0, wBin(tU32, "<<", wLitU(1), wInp(0)))}), inp(33)},
		{"clz", baseWitness([]*wstmt{wStore(0, wCall(tU32, "countLeadingZeros", wInp(0)))}), inp(2)},
		{"clz", baseWitness([]*wstmt{wStore(0, wCall(tU32, "countTrailingZeros", wInp(0)))}), inp(0)},
		{"privInit", baseWitness([]*wstmt{wStore(0, wBitcast(tU32, &wexpr{k: "var", ty: tF32, name: "gp1"}))},
			&wglobal{name: "gp1", space: "private", ty: tF32, init: &wexpr{k: "lit", ty: tF32, bits: 7, konst: true}}), inp()},
		{"vecInit", baseWitness([]*wstmt{wStore(0, wBitcast(tU32, &wexpr{k: "idx", ty: tF32, args: []*wexpr{{k: "var", ty: tVec(2, tF32), name: "gp0"}, wLitU(0)}}))},
			&wglobal{name: "gp0", space: "private", ty: tVec(2, tF32), init: &wexpr{k: "cons", ty: tVec(2, tF32), konst: true,
				args: []*wexpr{{k: "lit", ty: tF32, bits: 8, konst: true}, {k: "lit", ty: tF32, bits: 5, konst: true}}}}), inp()},
		{"swBreak", baseWitness([]*wstmt{{k: "switch", e: wLitI(0), cases: []wcase{
			{sels: []uint32{5}, body: []*wstmt{}}, {deflt: true, body: []*wstmt{{k: "break"}}}}}}), inp()},
		{"absU", baseWitness([]*wstmt{wStore(0, wCall(tU32, "abs", wInp(0)))}), inp(0x80000001)},
		{"spill", baseWitness([]*wstmt{
			{k: "let", name: "arr", ty: tArr(4, tU32), e: &wexpr{k: "cons", ty: tArr(4, tU32), args: []*wexpr{wInp(0), wInp(1), wInp(2), wInp(3)}}},
			{k: "if", e: wBin(tBool, "==", wInp(4), wLitU(1)), body: []*wstmt{wStore(0, &wexpr{k: "idx", ty: tU32, args: []*wexpr{{k: "var", ty: tArr(4, tU32), name: "arr"}, wBin(tU32, "%", wInp(5), wLitU(4))}})}},
			wStore(1, &wexpr{k: "idx", ty: tU32, args: []*wexpr{{k: "var", ty: tArr(4, tU32), name: "arr"}, wBin(tU32, "%", wInp(6), wLitU(4))}}),
		}), inp(11, 12, 13, 14, 0, 1, 2)},
		{"f2iRange", baseWitness([]*wstmt{wStore(0, wBitcast(tU32, &wexpr{k: "cast", ty: tI32, args: []*wexpr{wBitcast(tF32, wInp(0))}}))}), inp(0x4f000000)},
		{"f2iRange", baseWitness([]*wstmt{wStore(0, &wexpr{k: "cast", ty: tU32, args: []*wexpr{wBitcast(tF32, wInp(0))}})}), inp(0xbf800000)},
		{"bitField", baseWitness([]*wstmt{wStore(0, wCall(tU32, "extractBits", wInp(0), wBin(tU32, "&", wInp(1), wLitU(63)), wBin(tU32, "&", wInp(2), wLitU(63))))}), inp(0xdeadbeef, 20, 20)},
		{"frem", baseWitness([]*wstmt{wStore(0, wBitcast(tU32, wBin(tF32, "%", wBitcast(tF32, wInp(0)), wBitcast(tF32, wInp(1)))))}), inp(0xc0600000, 0x40000000)},
		{"letsnap", baseWitness([]*wstmt{
			{k: "var", name: "vv1", ty: tArr(4, tU32), e: &wexpr{k: "cons", ty: tArr(4, tU32), args: []*wexpr{wInp(0), wLitU(7), wLitU(3), wLitU(6)}}},
			{k: "let", name: "ll2", ty: tArr(4, tU32), e: &wexpr{k: "var", ty: tArr(4, tU32), name: "vv1"}},
			{k: "assign", lhs: &wexpr{k: "idx", ty: tU32, args: []*wexpr{{k: "var", ty: tArr(4, tU32), name: "vv1"}, wLitU(1)}}, e: wLitU(99)},
			wStore(4, &wexpr{k: "idx", ty: tU32, args: []*wexpr{{k: "var", ty: tArr(4, tU32), name: "ll2"}, wBin(tU32, "%", wInp(14), wLitU(4))}}),
		}), inp(5, 0, 0, 0, 0, 0, 0, 0, 0, 0, 0, 0, 0, 0, 1)},
		{"fordne", baseWitness([]*wstmt{wStore(0, sel(wBin(tBool, "!=", wBitcast(tF32, wInp(0)), wBitcast(tF32, wInp(1)))))}), inp(0x7fc00000, 0x3f800000)},
	}
}

func cmdC01Witness(c *ctx) {
	for _, w := range c01Witnesses() {
		outp := make([]uint32, 16)
		line, ok := spvCase(w.m, w.inp, outp, spirv.Options{Version: spirv.Version1_3})
		if !ok {
			c.line("cases.txt", "(note rejected)")
		} else {
			c.line("cases.txt", line)
		}
		c.line("src.txt", q(w.m.wgsl()))
		shape := ""
		if hasMultiSpill(w.m) {
			shape = " spill2"
		}
		if hasLetSnapshot(w.m) {
			shape += " letsnap"
		}
		c.line("tags.txt", fmt.Sprintf("%s witness%s", w.knob, shape))
	}
}

func init() { commands["c01witness"] = cmdC01Witness }
