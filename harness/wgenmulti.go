package main

// wgenmulti: modules with several entry points of mixed stages that share (or do not share) resources
// through helper functions — the shape needed by the interface rules of C02 and by C17.

import (
	"fmt"
	"sort"
	"strings"
)

type mGlobal struct {
	name    string
	kind    string // storage_rw storage_r uniform private workgroup
	group   int
	binding int
	decl    string
}

type mFunc struct {
	name    string
	uses    []int // globals referenced directly
	calls   []int // helper indices (earlier helpers only)
	writes  bool
}

type mEntry struct {
	name  string
	stage string // compute vertex fragment
	uses  []int
	calls []int
	wg    [3]int
	wgS   [3]string // spelling of the workgroup_size arguments
	// stage IO
	inLocs  []int
	outLocs []int
	builtin string
}

type mIOField struct {
	loc      int
	ty       string // u32 i32 f32 vec2<f32> vec4<f32>
	interp   string // "" flat linear perspective
	sampling string // "" center centroid sample
	attrs    string // rendered attribute list (random order)
}

type mModule struct {
	globals []mGlobal
	helpers []mFunc
	entries []mEntry
	io      []mIOField // fields of the shared vertex-output / fragment-input struct VO
	posInv  bool       // @invariant on the position member of VO
	prelude string     // module constants the attribute arguments refer to
	ctxSeed uint64     // decides the statement context each use / call is placed in (plain, if, switch case, loop body, continuing, ...)
	wrapN   int
}

// wrap places the statements `body` (assignments and calls only) in one of the statement contexts the back ends'
// used-global walkers have to descend into; the choice is a function of (ctxSeed, owner, idx).
func (m *mModule) wrap(body, owner string, idx int) string {
	h := m.ctxSeed
	for _, ch := range owner {
		h = h*1099511628211 + uint64(ch)
	}
	h = (h*1099511628211 + uint64(idx)) * 0x9E3779B97F4A7C15
	m.wrapN++
	k := fmt.Sprintf("k%d", m.wrapN)
	switch (h >> 33) % 12 {
	case 0:
		return "  if acc != 12345u {\n" + body + "  }\n"
	case 1:
		return "  if acc == 12345u { acc = 0u; } else {\n" + body + "  }\n"
	case 2:
		return "  switch acc & 1u {\n    case 7u: { }\n    default: {\n" + body + "    }\n  }\n"
	case 3:
		return "  loop {\n" + body + "    break;\n  }\n"
	case 4:
		return "  var " + k + " = 0u;\n  loop {\n    if " + k + " >= 1u { break; }\n    continuing {\n      " + k + " = " + k + " + 1u;\n" + body + "    }\n  }\n"
	case 5:
		return "  {\n    {\n" + body + "    }\n  }\n"
	case 6:
		return "  for (var " + k + " = 0u; " + k + " < 1u; " + k + " = " + k + " + 1u) {\n" + body + "  }\n"
	}
	return body
}

func (m *mModule) readExpr(g int) string {
	gl := m.globals[g]
	switch gl.kind {
	case "storage_rw", "storage_r":
		return gl.name + "[1u]"
	case "uniform":
		return gl.name + ".a.y"
	case "private":
		return gl.name
	default:
		return gl.name + "[2u]"
	}
}

func (m *mModule) writeStmt(g int, v string) string {
	gl := m.globals[g]
	switch gl.kind {
	case "storage_rw":
		return gl.name + "[0u] = " + v + ";"
	case "private":
		return gl.name + " = " + v + ";"
	case "workgroup":
		return gl.name + "[3u] = " + v + ";"
	}
	return ""
}

// reach: globals transitively used by a body with the given direct uses and calls.
func (m *mModule) reach(uses, calls []int) []int {
	set := map[int]bool{}
	var visit func(h int)
	seen := map[int]bool{}
	visit = func(h int) {
		if seen[h] {
			return
		}
		seen[h] = true
		for _, g := range m.helpers[h].uses {
			set[g] = true
		}
		for _, c := range m.helpers[h].calls {
			visit(c)
		}
	}
	for _, g := range uses {
		set[g] = true
	}
	for _, h := range calls {
		visit(h)
	}
	var out []int
	for g := range set {
		out = append(out, g)
	}
	sort.Ints(out)
	return out
}

func subset(c *ctx, n int, p float64) []int {
	var out []int
	for i := 0; i < n; i++ {
		if c.chance(p) {
			out = append(out, i)
		}
	}
	return out
}

func genMulti(c *ctx) *mModule {
	m := &mModule{ctxSeed: c.rng.Uint64()}
	m.posInv = c.chance(0.3)
	c.attrConsts = map[int]bool{}
	defer func() { m.prelude = c.attrPrelude(); c.attrConsts = nil }()
	usedBind := map[[2]int]bool{}
	ng := 2 + c.rng.Intn(5)
	kinds := []string{"storage_rw", "storage_r", "uniform", "private", "workgroup", "storage_rw", "uniform"}
	for i := 0; i < ng; i++ {
		k := kinds[c.rng.Intn(len(kinds))]
		g := mGlobal{name: fmt.Sprintf("g%d", i), kind: k}
		if k == "storage_rw" || k == "storage_r" || k == "uniform" {
			for {
				g.group, g.binding = c.rng.Intn(4), c.rng.Intn(8)
				if !usedBind[[2]int{g.group, g.binding}] {
					usedBind[[2]int{g.group, g.binding}] = true
					break
				}
			}
		}
		switch k {
		case "storage_rw":
			g.decl = fmt.Sprintf("@group(%s) @binding(%s) var<storage, read_write> %s: array<u32>;", c.attrNum(g.group), c.attrNum(g.binding), g.name)
		case "storage_r":
			g.decl = fmt.Sprintf("@group(%s) @binding(%s) var<storage, read> %s: array<u32>;", c.attrNum(g.group), c.attrNum(g.binding), g.name)
		case "uniform":
			g.decl = fmt.Sprintf("@group(%s) @binding(%s) var<uniform> %s: UB;", c.attrNum(g.group), c.attrNum(g.binding), g.name)
		case "private":
			g.decl = fmt.Sprintf("var<private> %s: u32;", g.name)
		default:
			g.decl = fmt.Sprintf("var<workgroup> %s: array<u32, 4>;", g.name)
		}
		m.globals = append(m.globals, g)
	}
	nh := c.rng.Intn(4)
	for i := 0; i < nh; i++ {
		h := mFunc{name: fmt.Sprintf("help%d", i), uses: subset(c, ng, 0.3), writes: c.chance(0.5)}
		for j := 0; j < i; j++ {
			if c.chance(0.4) {
				h.calls = append(h.calls, j)
			}
		}
		m.helpers = append(m.helpers, h)
	}
	// stage IO struct: 0-4 located fields with interpolation attributes in random attribute order
	usedLoc := map[int]bool{}
	for i, nf := 0, c.rng.Intn(5); i < nf; i++ {
		f := mIOField{loc: c.rng.Intn(16)}
		if usedLoc[f.loc] {
			continue
		}
		usedLoc[f.loc] = true
		f.ty = []string{"u32", "i32", "f32", "vec2<f32>", "vec4<f32>"}[c.rng.Intn(5)]
		if f.ty == "u32" || f.ty == "i32" {
			f.interp = "flat"
		} else {
			f.interp = []string{"", "", "flat", "linear", "perspective"}[c.rng.Intn(5)]
			if f.interp == "linear" || f.interp == "perspective" {
				f.sampling = []string{"", "center", "centroid", "sample"}[c.rng.Intn(4)]
			}
		}
		locA := fmt.Sprintf("@location(%s)", c.attrNum(f.loc))
		intA := ""
		if f.interp != "" {
			intA = "@interpolate(" + f.interp
			if f.sampling != "" {
				intA += ", " + f.sampling
			}
			intA += ")"
		}
		if intA != "" && c.chance(0.5) {
			f.attrs = intA + " " + locA
		} else {
			f.attrs = strings.TrimSpace(locA + " " + intA)
		}
		m.io = append(m.io, f)
	}
	ne := 1 + c.rng.Intn(4)
	for i := 0; i < ne; i++ {
		e := mEntry{name: fmt.Sprintf("ep%d", i), stage: []string{"compute", "compute", "vertex", "fragment"}[c.rng.Intn(4)]}
		e.uses = subset(c, ng, 0.3)
		e.calls = subset(c, nh, 0.5)
		e.wg = [3]int{1 + c.rng.Intn(8), 1 + c.rng.Intn(4), 1 + c.rng.Intn(2)}
		e.wgS = [3]string{c.attrNum(e.wg[0]), c.attrNum(e.wg[1]), strings.TrimSuffix(c.attrNum(e.wg[2]), ",")}
		m.entries = append(m.entries, e)
	}
	return m
}

// allowed: may a function running in `stage` touch global g (and write it)?
func (m *mModule) allowed(stage string, g int) (read, write bool) {
	switch m.globals[g].kind {
	case "storage_rw":
		if stage == "vertex" {
			return false, false
		}
		return true, true
	case "storage_r", "uniform":
		return true, false
	case "private":
		return true, true
	default: // workgroup
		return stage == "compute", stage == "compute"
	}
}

// stagesOf: the stages from which helper h is reachable.
func (m *mModule) stagesOf() [][]string {
	out := make([][]string, len(m.helpers))
	var visit func(h int, st string, seen map[int]bool)
	visit = func(h int, st string, seen map[int]bool) {
		if seen[h] {
			return
		}
		seen[h] = true
		out[h] = append(out[h], st)
		for _, c := range m.helpers[h].calls {
			visit(c, st, seen)
		}
	}
	for _, e := range m.entries {
		seen := map[int]bool{}
		for _, h := range e.calls {
			visit(h, e.stage, seen)
		}
	}
	return out
}

func (m *mModule) wgsl() string {
	var b strings.Builder
	m.wrapN = 0
	b.WriteString("struct UB { a: vec4<u32>, }\n")
	if m.posInv {
		b.WriteString("struct VO {\n  @builtin(position) @invariant p: vec4<f32>,\n")
	} else {
		b.WriteString("struct VO {\n  @builtin(position) p: vec4<f32>,\n")
	}
	for i, f := range m.io {
		fmt.Fprintf(&b, "  %s f%d: %s,\n", f.attrs, i, f.ty)
	}
	b.WriteString("}\n")
	for _, g := range m.globals {
		b.WriteString(g.decl + "\n")
	}
	stages := m.stagesOf()
	okFor := func(sts []string, g int, write bool) bool {
		for _, st := range sts {
			r, w := m.allowed(st, g)
			if !r || (write && !w) {
				return false
			}
		}
		return true
	}
	for hi := range m.helpers {
		h := &m.helpers[hi]
		// drop uses the calling stages do not allow
		var keep []int
		for _, g := range h.uses {
			if okFor(stages[hi], g, false) {
				keep = append(keep, g)
			}
		}
		h.uses = keep
		fmt.Fprintf(&b, "fn %s(x: u32) -> u32 {\n  var acc: u32 = x;\n", h.name)
		for _, g := range h.uses {
			st := fmt.Sprintf("  acc = acc + %s;\n", m.readExpr(g))
			if h.writes && okFor(stages[hi], g, true) {
				if w := m.writeStmt(g, "acc"); w != "" {
					st += "  " + w + "\n"
				}
			}
			b.WriteString(m.wrap(st, h.name+"u", g))
		}
		for _, cidx := range h.calls {
			b.WriteString(m.wrap(fmt.Sprintf("  acc = acc ^ %s(acc);\n", m.helpers[cidx].name), h.name+"c", cidx))
		}
		b.WriteString("  return acc;\n}\n")
	}
	for ei := range m.entries {
		e := &m.entries[ei]
		var keep []int
		for _, g := range e.uses {
			if r, _ := m.allowed(e.stage, g); r {
				keep = append(keep, g)
			}
		}
		e.uses = keep
		var body strings.Builder
		body.WriteString("  var acc: u32 = 1u;\n")
		for _, g := range e.uses {
			st := fmt.Sprintf("  acc = acc + %s;\n", m.readExpr(g))
			if _, w := m.allowed(e.stage, g); w {
				if ws := m.writeStmt(g, "acc"); ws != "" {
					st += "  " + ws + "\n"
				}
			}
			body.WriteString(m.wrap(st, e.name+"u", g))
		}
		for _, h := range e.calls {
			body.WriteString(m.wrap(fmt.Sprintf("  acc = acc ^ %s(acc);\n", m.helpers[h].name), e.name+"c", h))
		}
		switch e.stage {
		case "compute":
			fmt.Fprintf(&b, "@compute @workgroup_size(%s, %s, %s)\nfn %s() {\n%s}\n", strings.TrimSuffix(e.wgS[0], ","), strings.TrimSuffix(e.wgS[1], ","), e.wgS[2], e.name, body.String())
		case "vertex":
			fmt.Fprintf(&b, "@vertex\nfn %s(@builtin(vertex_index) vi: u32, @location(0) pos: vec4<f32>) -> VO {\n%s  var o: VO;\n  o.p = pos + vec4<f32>(f32(acc + vi));\n", e.name, body.String())
			for i, f := range m.io {
				fmt.Fprintf(&b, "  o.f%d = %s(%s);\n", i, f.ty, map[string]string{"u32": "acc", "i32": "i32(acc)", "f32": "f32(acc)", "vec2<f32>": "f32(acc)", "vec4<f32>": "f32(acc)"}[f.ty])
			}
			b.WriteString("  return o;\n}\n")
		default:
			fmt.Fprintf(&b, "@fragment\nfn %s(vin: VO) -> @location(0) vec4<f32> {\n%s  var col: f32 = vin.p.x + f32(acc);\n", e.name, body.String())
			for i, f := range m.io {
				fmt.Fprintf(&b, "  col = col + f32(vin.f%d%s);\n", i, map[string]string{"vec2<f32>": ".y", "vec4<f32>": ".w"}[f.ty])
			}
			b.WriteString("  return vec4<f32>(col);\n}\n")
		}
	}
	b.WriteString(m.prelude)
	return b.String()
}
