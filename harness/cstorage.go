package main

// cstorage — storage-buffer access probes (HLSL: byte-address Load/Store expansion of storage.go).
// A container of type T lives inside `struct SB { head: u32, c: T, tail: u32 }` in two read_write storage
// buffers.  Kinds: whole-value copy `sb2.c = sb.c`, element store `sb.c[i] = v`, dynamic load `sb.c[i]`, and
// `let a = sb.c; a[i]` (a local copy indexed dynamically — must be clamped under RestrictIndexing).
// The expected buffer contents follow from the WGSL layout rules (AlignOf / SizeOf / stride tables of the
// WGSL specification §14.4.1, written out here for the shapes used); padding words are wildcards.

import (
	"fmt"
	"strings"
)

type stShape struct {
	name, decl string
	align      int   // bytes
	size       int   // bytes
	leaves     []int // byte offsets (relative to the container) of the scalar leaves, in element order
	n, inner   int   // directly indexable elements, components per element
	elem       string
}

func stShapes() []stShape {
	var out []stShape
	roundUp := func(a, n int) int { return (n + a - 1) / a * a }
	vecAlign := map[int]int{2: 8, 3: 16, 4: 16}
	vecSize := map[int]int{2: 8, 3: 12, 4: 16}
	for _, n := range []int{3, 5} {
		lv := make([]int, n)
		for i := range lv {
			lv[i] = 4 * i
		}
		out = append(out, stShape{fmt.Sprintf("arr%d_u32", n), fmt.Sprintf("array<u32, %d>", n), 4, 4 * n, lv, n, 1, "u32"})
	}
	for _, r := range []int{2, 3, 4} {
		// array<vecR<T>, 3>: stride = roundUp(align, size)
		for _, e := range []string{"u32", "f32"} {
			stride := roundUp(vecAlign[r], vecSize[r])
			var lv []int
			for i := 0; i < 3; i++ {
				for j := 0; j < r; j++ {
					lv = append(lv, i*stride+4*j)
				}
			}
			out = append(out, stShape{fmt.Sprintf("arr3_vec%d%s", r, e[:1]), fmt.Sprintf("array<vec%d<%s>, 3>", r, e), vecAlign[r], 3 * stride, lv, 3, r, e})
		}
	}
	for c := 2; c <= 4; c++ {
		for r := 2; r <= 4; r++ {
			stride := roundUp(vecAlign[r], vecSize[r])
			var lv []int
			for i := 0; i < c; i++ {
				for j := 0; j < r; j++ {
					lv = append(lv, i*stride+4*j)
				}
			}
			out = append(out, stShape{fmt.Sprintf("mat%dx%d", c, r), fmt.Sprintf("mat%dx%d<f32>", c, r), vecAlign[r], c * stride, lv, c, r, "f32"})
		}
	}
	return out
}

func cmdCStorage(c *ctx) {
	dialect := "hlsl"
	if len(c.args) > 0 {
		dialect = c.args[0]
	}
	hostile := len(c.args) > 1 && c.args[1] == "hostile"
	roundUp := func(a, n int) int { return (n + a - 1) / a * a }
	tags := map[string][]struct{ tag, policy string }{
		"hlsl": {{"sm=1 restrict=true loopbound=true zeroinit=true", "restrict"}, {"sm=2 restrict=false loopbound=false zeroinit=true", ""}},
	}[dialect]
	for _, s := range stShapes() {
		off := roundUp(s.align, 4)                 // offset of c
		tailOff := roundUp(4, off+s.size)          // offset of tail
		structAlign := s.align
		total := roundUp(structAlign, tailOff+4)   // SizeOf(SB)
		words := total / 4
		for _, kind := range []string{"wholecopy", "elemstore", "dynload", "letload"} {
			if hostile && kind != "letload" {
				continue // storage-buffer subscripts rely on the API's robust buffer access, not on naga guards
			}
			var b strings.Builder
			fmt.Fprintf(&b, "struct SB { head: u32, c: %s, tail: u32 }\n", s.decl)
			b.WriteString("@group(0) @binding(0) var<storage, read> inp: array<u32>;\n@group(0) @binding(1) var<storage, read_write> outp: array<u32>;\n")
			b.WriteString("@group(0) @binding(2) var<storage, read_write> sb: SB;\n@group(0) @binding(3) var<storage, read_write> sb2: SB;\n")
			b.WriteString("@compute @workgroup_size(1)\nfn main() {\n")
			elemTy := s.elem
			if s.inner > 1 {
				elemTy = fmt.Sprintf("vec%d<%s>", s.inner, s.elem)
			}
			newLeaf := map[string]string{"u32": "424242u", "f32": "8192.0"}[s.elem]
			newVal := newLeaf
			if s.inner > 1 {
				newVal = fmt.Sprintf("%s(%s)", elemTy, newLeaf)
			}
			word := func(e string) string {
				if s.elem == "u32" {
					return e
				}
				return "bitcast<u32>(" + e + ")"
			}
			switch kind {
			case "wholecopy":
				b.WriteString("  sb2.c = sb.c;\n")
			case "elemstore":
				fmt.Fprintf(&b, "  sb.c[inp[31u]] = %s;\n", newVal)
			case "dynload", "letload":
				if kind == "letload" {
					b.WriteString("  let a = sb.c;\n  let x = a[inp[31u]];\n")
				} else {
					b.WriteString("  let x = sb.c[inp[31u]];\n")
				}
				for j := 0; j < s.inner; j++ {
					comp := "x"
					if s.inner > 1 {
						comp = fmt.Sprintf("x[%d]", j)
					}
					fmt.Fprintf(&b, "  outp[%du] = %s;\n", j, word(comp))
				}
			}
			b.WriteString("}\n")
			src := b.String()
			mod, res := frontEnd(src)
			if mod == nil {
				c.count("rejected")
				c.line("rejected.txt", q(fmt.Sprint(res))+" "+q(src))
				continue
			}
			for _, os := range tags {
				if hostile && os.policy == "" {
					continue
				}
				text, _, cerr := emitCFixed(dialect, mod, os.tag)
				if cerr != "" {
					c.count("backend-error")
					c.line("backend-errors.txt", q(cerr)+" "+q(src))
					continue
				}
				unit, perr := cparse(text)
				if perr != nil {
					c.count("cparse-error")
					c.line("cparse-errors.txt", q(perr.Error())+" "+q(text))
					continue
				}
				var idxs []uint32
				if hostile {
					idxs = []uint32{uint32(s.n), uint32(s.n) + 1, 0xffffffff, 0x80000000, c.rng.Uint32()}
				} else {
					for i := 0; i < s.n; i++ {
						idxs = append(idxs, uint32(i))
					}
				}
				if kind == "wholecopy" {
					idxs = idxs[:1]
				}
				for _, idx := range idxs {
					inp, outp := c.inputWords(32), c.inputWords(8)
					inp[31] = idx
					sb, sb2 := make([]uint32, words), make([]uint32, words)
					for k := range sb {
						sb[k] = uint32(5000 + k)
						sb2[k] = uint32(9000 + k)
						if s.elem == "f32" {
							sb[k] = fbits(float32(16 + k))
							sb2[k] = fbits(float32(512 + k))
						}
					}
					exp1 := fmtWords(outp)
					e2 := wild(sb, nil)
					e3 := wild(sb2, nil)
					eff := int(idx)
					if eff >= s.n {
						eff = s.n - 1 // Restrict (hostile letload only)
					}
					switch kind {
					case "wholecopy":
						cp := append([]uint32(nil), sb2...)
						for _, l := range s.leaves {
							cp[(off+l)/4] = sb[(off+l)/4]
						}
						pad := map[int]bool{}
						for w := off / 4; w < (off+s.size)/4; w++ {
							pad[w] = true
						}
						for _, l := range s.leaves {
							delete(pad, (off+l)/4)
						}
						e3 = wild(cp, pad)
					case "elemstore":
						cp := append([]uint32(nil), sb...)
						for j := 0; j < s.inner; j++ {
							v := uint32(424242)
							if s.elem == "f32" {
								v = fbits(8192.0)
							}
							cp[(off+s.leaves[eff*s.inner+j])/4] = v
						}
						e2 = wild(cp, nil)
					case "dynload", "letload":
						o := append([]uint32(nil), outp...)
						for j := 0; j < s.inner; j++ {
							o[j] = sb[(off+s.leaves[eff*s.inner+j])/4]
						}
						exp1 = fmtWords(o)
					}
					c.line("cases.txt", fmt.Sprintf("(crun %s (unit %s) (inputs %s %s %s %s))", dialect, unit, wordsSexp(0, inp), wordsSexp(1, outp), wordsSexp(2, sb), wordsSexp(3, sb2)))
					c.line("expected.txt", "1:"+exp1+";2:"+e2+";3:"+e3)
					c.line("src.txt", q(src))
					c.line("text.txt", q(text))
					c.line("tags.txt", fmt.Sprintf("storage:%s:%s:%s idx=%d policy=%s | %s", s.name, kind, map[bool]string{true: "hostile", false: "inrange"}[hostile], idx, os.policy, os.tag))
					c.count("storage-cases")
				}
			}
		}
	}
}

func fbits(f float32) uint32 { return mathFloat32bits(f) }

func fmtWords(ws []uint32) string {
	ps := make([]string, len(ws))
	for i, w := range ws {
		ps[i] = fmt.Sprint(w)
	}
	return "[" + strings.Join(ps, ", ") + "]"
}

// wild prints words with `*` at the given (padding) word positions.
func wild(ws []uint32, pad map[int]bool) string {
	ps := make([]string, len(ws))
	for i, w := range ws {
		if pad[i] {
			ps[i] = "*"
		} else {
			ps[i] = fmt.Sprint(w)
		}
	}
	return "[" + strings.Join(ps, ", ") + "]"
}

func init() { commands["cstorage"] = cmdCStorage }
