package main

// cwg — workgroup zero-initialisation probes (C15): random modules with several compute entry points,
// helper functions forming a call DAG, and workgroup variables of several types read (before any
// write) directly and through helpers.  WGSL guarantees that workgroup memory reads as zero, so the
// expected output of every entry point is computed here with all workgroup reads = 0.  Each entry
// point of the real SPIR-V binary / HLSL / MSL / GLSL text is run by the Lean interpreters, in which a
// workgroup variable that was never stored is *undefined*.

import (
	"fmt"
	"strings"

	"github.com/gogpu/naga"
	"github.com/gogpu/naga/glsl"
	"github.com/gogpu/naga/hlsl"
	"github.com/gogpu/naga/msl"
	"github.com/gogpu/naga/spirv"
)

type wgVar struct {
	name, ty, read string // read: expression of type u32 reading the variable
}

var wgVarPool = []wgVar{
	{"w0", "u32", "w0"},
	{"w1", "array<u32, 3>", "w1[1]"},
	{"w2", "vec2<u32>", "w2.y"},
	{"w3", "array<vec2<u32>, 2>", "w3[1].x"},
	{"w4", "i32", "bitcast<u32>(w4)"},
	{"w5", "WS", "w5.b[2]"},
}

type wgFunc struct {
	name   string
	konst  uint32
	reads  []int // indices into vars
	calls  []int // indices of earlier helpers
	isEntry bool
	bump    uint32 // entry points: `wp(&w0, bump); acc = acc + w0;` at the end (a store through a ptr<workgroup, u32> parameter)
}

func (c *ctx) genWG() (string, []wgFunc, []wgVar) {
	nv := 2 + c.rng.Intn(4)
	perm := c.rng.Perm(len(wgVarPool))[:nv]
	vars := make([]wgVar, nv)
	for i, p := range perm {
		vars[i] = wgVarPool[p]
	}
	nh := 2 + c.rng.Intn(4)
	helpers := make([]wgFunc, nh)
	for i := range helpers {
		h := wgFunc{name: fmt.Sprintf("h%d", i), konst: uint32(1 + c.rng.Intn(1000))}
		for v := range vars {
			if c.chance(0.3) {
				h.reads = append(h.reads, v)
			}
		}
		for j := 0; j < i; j++ {
			if c.chance(0.4) {
				h.calls = append(h.calls, j)
			}
		}
		helpers[i] = h
	}
	ne := 2 + c.rng.Intn(2)
	entries := make([]wgFunc, ne)
	for i := range entries {
		e := wgFunc{name: fmt.Sprintf("e%d", i), konst: uint32(1 + c.rng.Intn(1000)), isEntry: true}
		for v := range vars {
			if c.chance(0.2) {
				e.reads = append(e.reads, v)
			}
		}
		for j := range helpers {
			if c.chance(0.45) {
				e.calls = append(e.calls, j)
			}
		}
		if len(e.calls) == 0 && len(e.reads) == 0 {
			e.calls = []int{c.rng.Intn(nh)}
		}
		for _, v := range vars {
			if v.name == "w0" && c.chance(0.5) {
				e.bump = uint32(1 + c.rng.Intn(100))
			}
		}
		entries[i] = e
	}
	var b strings.Builder
	b.WriteString("struct WS { a: u32, b: array<u32, 4> }\n")
	b.WriteString("@group(0) @binding(0) var<storage, read> inp: array<u32>;\n@group(0) @binding(1) var<storage, read_write> outp: array<u32>;\n")
	for _, v := range vars {
		fmt.Fprintf(&b, "var<workgroup> %s: %s;\n", v.name, v.ty)
	}
	// every read / call is a statement of its own, placed in a statement context that runs it exactly once
	// (if, switch case, loop body, `continuing`, for, nested block) — the back ends' used-global walkers have to
	// descend into each of them to find the workgroup variables an entry point can reach
	nk := 0
	once := func(st string) string {
		nk++
		k := fmt.Sprintf("k%d", nk)
		switch c.rng.Intn(9) {
		case 0:
			return "  if inp[0] == inp[0] {\n  " + st + "  }\n"
		case 1:
			return "  switch acc & 0u {\n    case 5u: { }\n    default: {\n  " + st + "    }\n  }\n"
		case 2:
			return "  loop {\n  " + st + "    break;\n  }\n"
		case 3:
			return "  var " + k + " = 0u;\n  loop {\n    if " + k + " >= 1u { break; }\n    continuing {\n      " + k + " = " + k + " + 1u;\n  " + st + "    }\n  }\n"
		case 4:
			return "  for (var " + k + " = 0u; " + k + " < 1u; " + k + " = " + k + " + 1u) {\n  " + st + "  }\n"
		case 5:
			return "  {\n    {\n  " + st + "    }\n  }\n"
		}
		return st
	}
	body := func(f wgFunc) string {
		var sb strings.Builder
		fmt.Fprintf(&sb, "  var acc = %du;\n", f.konst)
		for _, r := range f.reads {
			sb.WriteString(once("  acc = acc + " + vars[r].read + ";\n"))
		}
		for _, cl := range f.calls {
			sb.WriteString(once("  acc = acc + " + helpers[cl].name + "();\n"))
		}
		if f.bump > 0 {
			// after every read of w0 that expects zero: the store must go through the pointer parameter
			fmt.Fprintf(&sb, "  wp(&w0, %du);\n  acc = acc + w0;\n", f.bump)
		}
		return sb.String()
	}
	b.WriteString("fn wp(p: ptr<workgroup, u32>, v: u32) {\n  *p = *p + v;\n}\n")
	// helpers in dependency order (WGSL allows any order; naga's arena order follows the text)
	for _, h := range helpers {
		fmt.Fprintf(&b, "fn %s() -> u32 {\n%s  return acc;\n}\n", h.name, body(h))
	}
	for i, e := range entries {
		fmt.Fprintf(&b, "@compute @workgroup_size(1)\nfn %s() {\n%s  outp[%du] = acc;\n}\n", e.name, body(e), i)
	}
	all := append(append([]wgFunc{}, helpers...), entries...)
	return b.String(), all, vars
}

func wgValue(fs []wgFunc, f wgFunc) uint32 {
	v := f.konst + f.bump
	for _, cl := range f.calls {
		v += wgValue(fs, fs[cl])
	}
	return v
}

func cmdCWG(c *ctx) {
	target := "spv"
	if len(c.args) > 0 {
		target = c.args[0]
	}
	for i := 0; i < c.n; i++ {
		src, fs, _ := c.genWG()
		ast, err := naga.Parse(src)
		if err != nil {
			c.count("rejected")
			c.line("rejected.txt", q(err.Error())+" "+q(src))
			continue
		}
		mod, err := naga.LowerWithSource(ast, src)
		if err != nil {
			c.count("rejected")
			c.line("rejected.txt", q(err.Error())+" "+q(src))
			continue
		}
		var entries []wgFunc
		for _, f := range fs {
			if f.isEntry {
				entries = append(entries, f)
			}
		}
		var spvText string
		var hlslUnit, mslUnit string
		tag := ""
		switch target {
		case "spv":
			opts := spirv.Options{Version: spvVersions[c.rng.Intn(len(spvVersions))], Debug: c.chance(0.3)}
			tag = fmt.Sprintf("v%d.%d debug=%v", opts.Version.Major, opts.Version.Minor, opts.Debug)
			var bin []byte
			r := guard("spirv", func() error { b, err := naga.GenerateSPIRV(mod, opts); bin = b; return err })
			if r.err != "" {
				c.count("backend-error")
				c.line("backend-errors.txt", q(r.err)+" "+q(src))
				continue
			}
			spvText = spvWords(bin)
		case "hlsl":
			o := hlsl.DefaultOptions()
			o.ZeroInitializeWorkgroupMemory = true
			o.ShaderModel = hlslModels[c.rng.Intn(len(hlslModels))]
			tag = fmt.Sprintf("sm=%d zeroinit=true", o.ShaderModel)
			var text string
			r := guard("hlsl", func() error { s, _, err := hlsl.Compile(mod, o); text = s; return err })
			if r.err != "" {
				c.count("backend-error")
				c.line("backend-errors.txt", q(r.err)+" "+q(src))
				continue
			}
			u, perr := cparse(text)
			if perr != nil {
				c.count("cparse-error")
				c.line("cparse-errors.txt", q(perr.Error())+" "+q(text))
				continue
			}
			hlslUnit = u
			c.line("texts.txt", q(text))
		case "msl":
			o := msl.DefaultOptions()
			o.ZeroInitializeWorkgroupMemory = true
			o.LangVersion = mslVersions[c.rng.Intn(len(mslVersions))]
			tag = fmt.Sprintf("v%d.%d zeroinit=true", o.LangVersion.Major, o.LangVersion.Minor)
			var text string
			r := guard("msl", func() error { s, _, err := msl.Compile(mod, o); text = s; return err })
			if r.err != "" {
				c.count("backend-error")
				c.line("backend-errors.txt", q(r.err)+" "+q(src))
				continue
			}
			u, perr := cparse(text)
			if perr != nil {
				c.count("cparse-error")
				c.line("cparse-errors.txt", q(perr.Error())+" "+q(text))
				continue
			}
			mslUnit = u
			c.line("texts.txt", q(text))
		}
		for ei, e := range entries {
			inp, outp := c.inputWords(8), c.inputWords(8)
			exp := append([]uint32(nil), outp...)
			exp[ei] = wgValue(fs, e)
			var line string
			switch target {
			case "spv":
				line = fmt.Sprintf("(spvrun %s (spv %s) (inputs %s %s))", q(e.name), spvText, wordsSexp(0, inp), wordsSexp(1, outp))
			case "hlsl":
				line = fmt.Sprintf("(crun hlsl (entry %s) (unit %s) (inputs %s %s))", q(e.name), hlslUnit, wordsSexp(0, inp), wordsSexp(1, outp))
			case "msl":
				line = fmt.Sprintf("(crun msl (entry %s) (unit %s) (inputs %s %s))", q(e.name), mslUnit, wordsSexp(0, inp), wordsSexp(1, outp))
			case "glsl":
				v := glslVersions[c.rng.Intn(len(glslVersions))]
				var text string
				r := guard("glsl", func() error {
					s, _, err := glsl.Compile(mod, glsl.Options{LangVersion: v, EntryPoint: e.name})
					text = s
					return err
				})
				if r.err != "" {
					c.count("backend-error")
					c.line("backend-errors.txt", q(r.err)+" "+q(src))
					continue
				}
				u, perr := cparse(text)
				if perr != nil {
					c.count("cparse-error")
					c.line("cparse-errors.txt", q(perr.Error())+" "+q(text))
					continue
				}
				tag = fmt.Sprintf("v%d%02d es=%v", v.Major, v.Minor, v.ES)
				line = fmt.Sprintf("(crun glsl (entry \"main\") (unit %s) (inputs %s %s))", u, wordsSexp(0, inp), wordsSexp(1, outp))
			}
			parts := make([]string, len(exp))
			for k, w := range exp {
				parts[k] = fmt.Sprint(w)
			}
			c.line("cases.txt", line)
			c.line("expected.txt", "["+strings.Join(parts, ", ")+"]")
			c.line("src.txt", q(src))
			c.line("tags.txt", fmt.Sprintf("wg:%s entry=%s | %s", target, e.name, tag))
			c.count("wg-cases")
		}
		c.count("wg-modules")
	}
}

func init() { commands["cwg"] = cmdCWG }
