package main

// c01probe: exhaustive operator × type × shape probes through the real SPIR-V backend.  For each
// probe the opcodes that implement the operator are obtained as the multiset difference between the
// probe program and a baseline program that only moves the operands.

import (
	"fmt"
	"sort"
	"strings"

	"github.com/gogpu/naga"
	"github.com/gogpu/naga/spirv"
)

func loadExpr(t string, n int, base int) string {
	one := func(i int) string {
		switch t {
		case "i32":
			return fmt.Sprintf("bitcast<i32>(inp[%du])", i)
		case "u32":
			return fmt.Sprintf("inp[%du]", i)
		case "f32":
			return fmt.Sprintf("bitcast<f32>(inp[%du])", i)
		default:
			return fmt.Sprintf("(inp[%du] != 0u)", i)
		}
	}
	if n == 1 {
		return one(base)
	}
	parts := make([]string, n)
	for i := range parts {
		parts[i] = one(base + i)
	}
	return fmt.Sprintf("vec%d<%s>(%s)", n, t, strings.Join(parts, ", "))
}

func tyStr(t string, n int) string {
	if n == 1 {
		return t
	}
	return fmt.Sprintf("vec%d<%s>", n, t)
}

func sinkExpr(t string, n int, e string) string {
	conv := func(x string) string {
		switch t {
		case "u32":
			return x
		case "bool":
			return "select(0u, 1u, " + x + ")"
		default:
			return "bitcast<u32>(" + x + ")"
		}
	}
	if n == 1 {
		return conv(e)
	}
	parts := make([]string, n)
	for i := range parts {
		parts[i] = conv(fmt.Sprintf("r[%d]", i))
	}
	return strings.Join(parts, " ^ ")
}

func probeProgram(ta string, na int, tb string, nb int, tr string, nr int, expr string) string {
	var b strings.Builder
	b.WriteString("@group(0) @binding(0) var<storage, read> inp: array<u32>;\n@group(0) @binding(1) var<storage, read_write> outp: array<u32>;\n@compute @workgroup_size(1)\nfn main() {\n")
	fmt.Fprintf(&b, "  var a: %s = %s;\n", tyStr(ta, na), loadExpr(ta, na, 0))
	fmt.Fprintf(&b, "  var b: %s = %s;\n", tyStr(tb, nb), loadExpr(tb, nb, 4))
	fmt.Fprintf(&b, "  var r: %s = %s;\n", tyStr(tr, nr), expr)
	fmt.Fprintf(&b, "  outp[0] = %s;\n}\n", sinkExpr(tr, nr, "r"))
	return b.String()
}

func mainOpcodes(src string, opts spirv.Options) (map[uint32]int, error) {
	ast, err := naga.Parse(src)
	if err != nil {
		return nil, err
	}
	m, err := naga.LowerWithSource(ast, src)
	if err != nil {
		return nil, err
	}
	bin, err := naga.GenerateSPIRV(m, opts)
	if err != nil {
		return nil, err
	}
	sm, err := decodeSPV(bin)
	if err != nil {
		return nil, err
	}
	// the entry function is the last function in the module; helper (wrapper) functions precede it
	ops := map[uint32]int{}
	last := -1
	for i, in := range sm.Insts {
		if in.Op == 54 {
			last = i
		}
	}
	for _, in := range sm.Insts[last:] {
		k := in.Op
		if in.Op == 12 {
			k = 100000 + in.Words[3] // ext inst number
		}
		ops[k]++
	}
	return ops, nil
}

func opsDiff(a, base map[uint32]int) string {
	var ks []int
	for k, v := range a {
		for i := 0; i < v-base[k]; i++ {
			ks = append(ks, int(k))
		}
	}
	sort.Ints(ks)
	parts := make([]string, len(ks))
	for i, k := range ks {
		parts[i] = fmt.Sprint(k)
	}
	return strings.Join(parts, " ")
}

func cmdC01Probe(c *ctx) {
	type binop struct {
		op    string
		kinds []string
		res   string // "" same as operand, "bool"
		rhsU  bool   // shift: rhs is u32
	}
	ops := []binop{
		{"+", []string{"i32", "u32", "f32"}, "", false}, {"-", []string{"i32", "u32", "f32"}, "", false},
		{"*", []string{"i32", "u32", "f32"}, "", false}, {"/", []string{"i32", "u32", "f32"}, "", false},
		{"%", []string{"i32", "u32"}, "", false},
		{"&", []string{"i32", "u32", "bool"}, "", false}, {"|", []string{"i32", "u32", "bool"}, "", false},
		{"^", []string{"i32", "u32"}, "", false},
		{"<<", []string{"i32", "u32"}, "", true}, {">>", []string{"i32", "u32"}, "", true},
		{"==", []string{"i32", "u32", "f32", "bool"}, "bool", false}, {"!=", []string{"i32", "u32", "f32", "bool"}, "bool", false},
		{"<", []string{"i32", "u32", "f32"}, "bool", false}, {"<=", []string{"i32", "u32", "f32"}, "bool", false},
		{">", []string{"i32", "u32", "f32"}, "bool", false}, {">=", []string{"i32", "u32", "f32"}, "bool", false},
		{"&&", []string{"bool"}, "", false}, {"||", []string{"bool"}, "", false},
	}
	versions := []spirv.Version{spirv.Version1_3}
	if c.tier == "thorough" {
		versions = []spirv.Version{spirv.Version1_0, spirv.Version1_3, spirv.Version1_6}
	}
	for _, ver := range versions {
		for _, dbg := range []bool{false, true} {
			opts := spirv.Options{Version: ver, Debug: dbg}
			for _, o := range ops {
				for _, k := range o.kinds {
					shapes := []int{1, 3}
					if o.op == "&&" || o.op == "||" {
						shapes = []int{1}
					}
					for _, n := range shapes {
						tb := k
						if o.rhsU {
							tb = "u32"
						}
						tr := k
						if o.res != "" {
							tr = o.res
						}
						base, err1 := mainOpcodes(probeProgram(k, n, tb, n, k, n, "a"), opts)
						probe, err2 := mainOpcodes(probeProgram(k, n, tb, n, tr, n, "a "+o.op+" b"), opts)
						// the baseline for a bool-valued result differs in the sink; use a bool baseline
						if o.res == "bool" && k != "bool" {
							base, err1 = mainOpcodes(probeProgram(k, n, tb, n, "bool", n, loadExpr("bool", n, 8)), opts)
							probe, err2 = mainOpcodes(probeProgram(k, n, tb, n, tr, n, "(a "+o.op+" b) & "+loadExpr("bool", n, 8)), opts)
						}
						key := fmt.Sprintf("(%s %s %d)", q(o.op), k, n)
						if err1 != nil || err2 != nil {
							c.line("optable.txt", fmt.Sprintf("%s error", key))
							continue
						}
						c.line("optable.txt", fmt.Sprintf("%s (%s) v%d.%d debug=%v", key, opsDiff(probe, base), ver.Major, ver.Minor, dbg))
					}
				}
			}
		}
	}
}

// wrapperPatterns: the bodies of the helper functions preceding the entry function, with ids
// renamed by role (0 lhs, 1 rhs, 2 const 0, 3 const MIN, 4 const -1, 5 const 1, 10.. temporaries).
func wrapperPatterns(src string, opts spirv.Options) ([]string, error) {
	ast, err := naga.Parse(src)
	if err != nil {
		return nil, err
	}
	m, err := naga.LowerWithSource(ast, src)
	if err != nil {
		return nil, err
	}
	bin, err := naga.GenerateSPIRV(m, opts)
	if err != nil {
		return nil, err
	}
	sm, err := decodeSPV(bin)
	if err != nil {
		return nil, err
	}
	consts := map[uint32]uint32{} // id -> value (scalar constants and splat composites)
	for _, in := range sm.Insts {
		if in.Op == 43 && len(in.Words) >= 3 {
			consts[in.Words[1]] = in.Words[2]
		}
	}
	for _, in := range sm.Insts {
		if in.Op == 44 && len(in.Words) >= 3 { // composite of identical constituents = splat
			if v, ok := consts[in.Words[2]]; ok {
				consts[in.Words[1]] = v
			}
		}
	}
	var fnStarts []int
	for i, in := range sm.Insts {
		if in.Op == 54 {
			fnStarts = append(fnStarts, i)
		}
	}
	var out []string
	for fi := 0; fi+1 < len(fnStarts); fi++ {
		role := map[uint32]int{}
		nparam, ntemp := 0, 10
		r := func(id uint32) int {
			if v, ok := role[id]; ok {
				return v
			}
			if c, ok := consts[id]; ok {
				switch c {
				case 0:
					return 2
				case 0x80000000:
					return 3
				case 0xFFFFFFFF:
					return 4
				case 1:
					return 5
				}
				return 900 + int(c%50)
			}
			return 999
		}
		var parts []string
		divOp := uint32(0)
		for _, in := range sm.Insts[fnStarts[fi]:fnStarts[fi+1]] {
			switch in.Op {
			case 54, 56, 248:
			case 55:
				role[in.Words[1]] = nparam
				nparam++
			case 254:
				parts = append(parts, fmt.Sprintf("(254 (%d))", r(in.Words[0])))
			default:
				role[in.Words[1]] = ntemp
				ntemp++
				ws := []string{fmt.Sprint(role[in.Words[1]])}
				for _, w := range in.Words[2:] {
					ws = append(ws, fmt.Sprint(r(w)))
				}
				if in.Op == 134 || in.Op == 135 || in.Op == 137 || in.Op == 138 || in.Op == 139 {
					divOp = in.Op
				}
				parts = append(parts, fmt.Sprintf("(%d (%s))", in.Op, strings.Join(ws, " ")))
			}
		}
		out = append(out, fmt.Sprintf("(wrapper %d %s)", divOp, strings.Join(parts, " ")))
	}
	return out, nil
}

func cmdC01Wrappers(c *ctx) {
	for _, dbg := range []bool{false, true} {
		for _, k := range []string{"i32", "u32"} {
			for _, op := range []string{"/", "%"} {
				for _, n := range []int{1, 3} {
					ws, err := wrapperPatterns(probeProgram(k, n, k, n, k, n, "a "+op+" b"), spirv.Options{Version: spirv.Version1_3, Debug: dbg})
					if err != nil {
						c.line("wrappers.txt", "error "+oneLine(err.Error()))
						continue
					}
					for _, w := range ws {
						c.line("wrappers.txt", w)
					}
				}
			}
		}
	}
}

func init() { commands["c01probe"] = cmdC01Probe; commands["c01wrappers"] = cmdC01Wrappers }
