package main

// cbake — tie of the expression-level theorem Props/Bake.bake_sound (C03 / C04 / C05) with the real writers: the
// theorem's hypothesis is "every Load is baked".  For every function of generated programs, every Load expression that
// lies in an Emit range of naga's IR must have its own temporary in the emitted text of that function: a declaration
// named `_e<handle>` (the writers' naming scheme) or, for a `let`, the user's name.  Loads through pointers to
// opaque / run-time-sized objects have no value to bake and are not counted.

import (
	"fmt"
	"strings"

	"github.com/gogpu/naga/glsl"
	"github.com/gogpu/naga/hlsl"
	"github.com/gogpu/naga/ir"
	"github.com/gogpu/naga/msl"
)

// declaredNames: every local declared in a function body (cparse AST), at any depth.
func declaredNames(n *snode, out map[string]bool) {
	if n == nil || !n.list {
		return
	}
	if n.head() == "decl" && len(n.kids) >= 4 {
		out[strings.TrimSuffix(n.kids[3].atom, "_")] = true
	}
	for _, k := range n.kids {
		declaredNames(k, out)
	}
}

func emittedHandles(b ir.Block, out map[ir.ExpressionHandle]bool) {
	for _, s := range b {
		switch k := s.Kind.(type) {
		case ir.StmtEmit:
			for h := k.Range.Start; h < k.Range.End; h++ {
				out[h] = true
			}
		case ir.StmtBlock:
			emittedHandles(k.Block, out)
		case ir.StmtIf:
			emittedHandles(k.Accept, out)
			emittedHandles(k.Reject, out)
		case ir.StmtSwitch:
			for _, c := range k.Cases {
				emittedHandles(c.Body, out)
			}
		case ir.StmtLoop:
			emittedHandles(k.Body, out)
			emittedHandles(k.Continuing, out)
		}
	}
}

func cmdCBake(c *ctx) {
	dialect := "msl"
	if len(c.args) > 0 {
		dialect = c.args[0]
	}
	for i := 0; i < c.n; i++ {
		o := defaultGenOpts(c)
		setKnob(&o, "clean")
		m, _ := genModule(c, o)
		src := m.wgsl()
		mod, _ := frontEnd(src)
		if mod == nil {
			c.count("rejected")
			continue
		}
		var text string
		var r stageResult
		switch dialect {
		case "hlsl":
			r = guard("hlsl", func() error { s, _, err := hlsl.Compile(mod, hlsl.DefaultOptions()); text = s; return err })
		case "msl":
			r = guard("msl", func() error { s, _, err := msl.Compile(mod, msl.DefaultOptions()); text = s; return err })
		default:
			r = guard("glsl", func() error {
				s, _, err := glsl.Compile(mod, glsl.Options{LangVersion: glsl.Version430, EntryPoint: "main"})
				text = s
				return err
			})
		}
		if r.err != "" {
			c.count("backend-error")
			continue
		}
		unit, perr := cparse(text)
		if perr != nil {
			c.count("cparse-error")
			continue
		}
		u := sparse(unit)
		byName := map[string]*snode{}
		for _, f := range funcsOf(u) {
			byName[strings.TrimSuffix(f.kids[3].atom, "_")] = f
		}
		check := func(name string, fn *ir.Function) {
			f, ok := byName[strings.TrimSuffix(name, "_")]
			if !ok {
				c.count("function-not-in-text")
				return
			}
			names := map[string]bool{}
			declaredNames(f.kids[5], names)
			emitted := map[ir.ExpressionHandle]bool{}
			emittedHandles(fn.Body, emitted)
			var missing []string
			nloads := 0
			for h, e := range fn.Expressions {
				if _, isLoad := e.Kind.(ir.ExprLoad); !isLoad || !emitted[ir.ExpressionHandle(h)] {
					continue
				}
				nloads++
				want := fmt.Sprintf("_e%d", h)
				if names[want] {
					continue
				}
				if nm, ok := fn.NamedExpressions[ir.ExpressionHandle(h)]; ok && names[strings.TrimSuffix(nm, "_")] {
					continue
				}
				missing = append(missing, want)
			}
			c.count("functions")
			c.stats["loads"] += nloads
			verdict := "baked"
			if len(missing) > 0 {
				verdict = "UNBAKED " + strings.Join(missing, " ")
			}
			c.line("rows.txt", fmt.Sprintf("%s | %s fn=%s loads=%d", verdict, dialect, name, nloads))
			c.line("src.txt", q(src))
			c.line("text.txt", q(text))
		}
		for fi := range mod.Functions {
			check(mod.Functions[fi].Name, &mod.Functions[fi])
		}
		for ei := range mod.EntryPoints {
			check(mod.EntryPoints[ei].Name, &mod.EntryPoints[ei].Function)
		}
	}
}

func init() { commands["cbake"] = cmdCBake }
