package main

// C17 — resource bindings and stage interfaces survive translation.
// Modules with 1-4 entry points of mixed stages (wgenmulti) are compiled by every back end under
// random binding maps; the binding annotations are extracted from the outputs (SPIR-V words are
// handed to the Lean decoder; text annotations are extracted here by regular expressions) and
// compared with what the Lean model (Naga.Model.Bind) derives from the WGSL attributes + maps.

import (
	"fmt"
	"regexp"
	"sort"
	"strings"

	"github.com/gogpu/naga"
	"github.com/gogpu/naga/glsl"
	"github.com/gogpu/naga/hlsl"
	"github.com/gogpu/naga/ir"
	"github.com/gogpu/naga/msl"
	"github.com/gogpu/naga/spirv"
)

func (m *mModule) sexp() string {
	var b strings.Builder
	b.WriteString("(mod (globals")
	for _, g := range m.globals {
		fmt.Fprintf(&b, " (%s %s %d %d)", g.name, g.kind, g.group, g.binding)
	}
	b.WriteString(") (helpers")
	for _, h := range m.helpers {
		fmt.Fprintf(&b, " (%s (uses %s) (calls %s))", h.name, ints(h.uses), ints(h.calls))
	}
	b.WriteString(") (entries")
	for _, e := range m.entries {
		fmt.Fprintf(&b, " (%s %s (wg %d %d %d) (uses %s) (calls %s))", e.name, e.stage, e.wg[0], e.wg[1], e.wg[2], ints(e.uses), ints(e.calls))
	}
	b.WriteString(") (io")
	if m.posInv {
		b.WriteString(" (inv - -)")
	}
	for _, f := range m.io {
		fmt.Fprintf(&b, " (%d %s %s)", f.loc, orDash(f.interp), orDash(f.sampling))
	}
	b.WriteString("))")
	return b.String()
}

func orDash(s string) string {
	if s == "" {
		return "-"
	}
	return s
}

func ints(xs []int) string {
	s := make([]string, len(xs))
	for i, x := range xs {
		s[i] = fmt.Sprint(x)
	}
	return strings.Join(s, " ")
}

var reHlslReg = regexp.MustCompile(`(?m)^(?:cbuffer|RWByteAddressBuffer|ByteAddressBuffer|RWStructuredBuffer<[^>]*>|StructuredBuffer<[^>]*>|ConstantBuffer<[^>]*>)\s+(\w+)\s*:\s*register\(([tubs])(\d+)(?:,\s*space(\d+))?\)`)
var reGlslBlock = regexp.MustCompile(`(?m)^layout\(([^)]*)\)\s*(readonly\s+|writeonly\s+)?(buffer|uniform)\s+(\w+)\s*\{\s*[\w<>]+\s+(\w+)`)
var reMslArg = regexp.MustCompile(`(?m)^\s*(?:device|constant)\s+[\w:<>]+(?:\s+const)?\s*&\s*(\w+)\s*\[\[(?:user\(fake0\)|buffer\((\d+)\))\]\]`)

// mslArgs: per entry-point function, the resource arguments with their [[buffer(n)]] slots.
func mslArgs(txt string) string {
	var out []string
	reFn := regexp.MustCompile(`(?m)^(?:kernel|vertex|fragment)\s+[\w:]+\s+(\w+)\(`)
	locs := reFn.FindAllStringSubmatchIndex(txt, -1)
	for i, l := range locs {
		name := txt[l[2]:l[3]]
		end := len(txt)
		if i+1 < len(locs) {
			end = locs[i+1][0]
		}
		body := txt[l[0]:end]
		if j := strings.Index(body, ") {"); j >= 0 {
			body = body[:j]
		}
		for _, a := range regexp.MustCompile(`(\w+)\s*\[\[(buffer\(\d+\)|user\(fake0\))\]\]`).FindAllStringSubmatch(body, -1) {
			out = append(out, strings.TrimSuffix(name, "_")+":"+strings.TrimSuffix(a[1], "_")+"="+a[2])
		}
	}
	return sortedLines(out)
}

func sortedLines(xs []string) string { sort.Strings(xs); return strings.Join(xs, " ; ") }

func cmdC17(c *ctx) {
	for i := 0; i < c.n; i++ {
		mm := genMulti(c)
		src := mm.wgsl()
		mod, res := frontEnd(src)
		if mod == nil || (len(res) > 1 && res[1].err != "") {
			c.count("frontend-rejected")
			c.line("rejected.txt", q(src)+" "+q(fmt.Sprint(res)))
			continue
		}
		desc := mm.sexp()
		// ---- SPIR-V
		opts := spirv.Options{Version: spvVersions[c.rng.Intn(len(spvVersions))], Debug: c.chance(0.3), ForcePointSize: c.chance(0.3), AdjustCoordinateSpace: c.chance(0.3)}
		var bin []byte
		r := guard("spirv", func() error { b, err := naga.GenerateSPIRV(mod, opts); bin = b; return err })
		emit := func(kase, impl, tag string) {
			c.line("cases.txt", kase)
			c.line("impl.txt", impl)
			c.line("tags.txt", tag)
			c.line("src.txt", q(src))
		}
		if r.err != "" {
			emit(fmt.Sprintf("(c17err %s)", desc), "error "+r.err, "spirv")
		} else {
			emit(fmt.Sprintf("(c17spv %s (opts %d %v) (spv %s))", desc, versionWord(opts.Version), opts.ForcePointSize, spvWords(bin)), "-",
				fmt.Sprintf("spirv v%d.%d pointsize=%v", opts.Version.Major, opts.Version.Minor, opts.ForcePointSize))
		}
		c.count("modules")
		// ---- binding map shared by the text back ends: each resource present with probability 0.7
		type tgt struct{ space, reg int }
		bm := map[[2]int]tgt{}
		var bmS []string
		for _, g := range mm.globals {
			if g.kind == "private" || g.kind == "workgroup" {
				continue
			}
			if c.chance(0.7) {
				t := tgt{c.rng.Intn(4), c.rng.Intn(16)}
				bm[[2]int{g.group, g.binding}] = t
				bmS = append(bmS, fmt.Sprintf("((%d %d) %d %d)", g.group, g.binding, t.space, t.reg))
			}
		}
		fake := c.chance(0.5)
		mapS := fmt.Sprintf("(map %v %s)", fake, strings.Join(bmS, " "))
		// ---- HLSL
		ho := hlsl.DefaultOptions()
		ho.FakeMissingBindings = fake
		ho.BindingMap = map[hlsl.ResourceBinding]hlsl.BindTarget{}
		for k, v := range bm {
			ho.BindingMap[hlsl.ResourceBinding{Group: uint32(k[0]), Binding: uint32(k[1])}] = hlsl.BindTarget{Space: uint8(v.space), Register: uint32(v.reg)}
		}
		var htxt string
		var hinfo *hlsl.TranslationInfo
		r = guard("hlsl", func() error { s, info, err := hlsl.Compile(mod, ho); htxt = s; hinfo = info; return err })
		if r.err != "" {
			emit(fmt.Sprintf("(c17hlsl %s %s)", desc, mapS), "error "+oneLine(r.err), "hlsl")
		} else {
			var regs []string
			for _, mt := range reHlslReg.FindAllStringSubmatch(htxt, -1) {
				sp := mt[4]
				if sp == "" {
					sp = "0"
				}
				regs = append(regs, fmt.Sprintf("%s=%s%s,space%s", strings.TrimSuffix(mt[1], "_"), mt[2], mt[3], sp))
			}
			var eps []string
			if hinfo != nil {
				for k := range hinfo.EntryPointNames {
					eps = append(eps, k)
				}
			}
			emit(fmt.Sprintf("(c17hlsl %s %s)", desc, mapS), "regs "+sortedLines(regs)+" | eps "+sortedLines(eps), "hlsl")
		}
		// ---- MSL: the same map for every entry point (buffer slot = reg + 4*space, kept below 31)
		mo := msl.DefaultOptions()
		mo.FakeMissingBindings = fake
		mo.PerEntryPointMap = map[string]msl.EntryPointResources{}
		for _, e := range mm.entries {
			er := msl.EntryPointResources{Resources: map[ir.ResourceBinding]msl.BindTarget{}}
			for k, v := range bm {
				slot := uint8((v.reg + 4*v.space) % 28)
				er.Resources[ir.ResourceBinding{Group: uint32(k[0]), Binding: uint32(k[1])}] = msl.BindTarget{Buffer: &slot, Mutable: true}
			}
			sz := uint8(30)
			er.SizesBuffer = &sz
			mo.PerEntryPointMap[e.name] = er
		}
		var mtxt string
		r = guard("msl", func() error { s, _, err := msl.Compile(mod, mo); mtxt = s; return err })
		if r.err != "" {
			emit(fmt.Sprintf("(c17msl %s %s)", desc, mapS), "error "+oneLine(r.err), "msl")
		} else {
			emit(fmt.Sprintf("(c17msl %s %s)", desc, mapS), "args "+mslArgs(mtxt), "msl")
		}
		// ---- MSL without a map and without FakeMissingBindings: slots are assigned automatically, sequentially per
		// resource kind over all bound globals sorted by (group, binding) (documented at computeResourceMap)
		ao := msl.DefaultOptions()
		var atxt string
		r = guard("msl", func() error { s, _, err := msl.Compile(mod, ao); atxt = s; return err })
		if r.err != "" {
			emit(fmt.Sprintf("(c17mslauto %s)", desc), "error "+oneLine(r.err), "msl-auto")
		} else {
			emit(fmt.Sprintf("(c17mslauto %s)", desc), "args "+mslArgs(atxt), "msl-auto")
		}
		// ---- GLSL: one compile per entry point
		for _, e := range mm.entries {
			gopts := glsl.Options{LangVersion: glsl.Version430, EntryPoint: e.name, BindingMap: map[glsl.BindingMapKey]uint8{}}
			for k, v := range bm {
				gopts.BindingMap[glsl.BindingMapKey{Group: uint32(k[0]), Binding: uint32(k[1])}] = uint8(v.reg + 16*v.space)
			}
			var gtxt string
			var ginfo glsl.TranslationInfo
			r = guard("glsl", func() error { s, inf, err := glsl.Compile(mod, gopts); gtxt = s; ginfo = inf; return err })
			kase := fmt.Sprintf("(c17glsl %s %s %s)", desc, mapS, e.name)
			if r.err != "" {
				emit(kase, "error "+oneLine(r.err), "glsl")
				continue
			}
			var blocks []string
			for _, mt := range reGlslBlock.FindAllStringSubmatch(gtxt, -1) {
				blocks = append(blocks, fmt.Sprintf("%s:%s:%s", mt[5], mt[3], strings.ReplaceAll(mt[1], " ", "")))
			}
			emit(kase, "blocks "+sortedLines(blocks), "glsl")
			// reflection vs text: TranslationInfo.Uniforms must list exactly the interface blocks of the text, each with its
			// kind (uniform / buffer) and the (group, binding) of the global it was written for
			var inText, inInfo []string
			for _, mt := range reGlslBlock.FindAllStringSubmatch(gtxt, -1) {
				gb := "?"
				for _, g := range mm.globals {
					if mt[5] == fmt.Sprintf("_group_%d_binding_%d_%s", g.group, g.binding, map[string]string{"vertex": "vs", "fragment": "fs", "compute": "cs"}[e.stage]) {
						gb = fmt.Sprintf("%d,%d", g.group, g.binding)
					}
				}
				inText = append(inText, fmt.Sprintf("%s storage=%v binding=%s", mt[4], mt[3] == "buffer", gb))
			}
			for _, u := range ginfo.Uniforms {
				inInfo = append(inInfo, fmt.Sprintf("%s storage=%v binding=%d,%d", u.BlockName, u.IsStorage, u.Binding.Group, u.Binding.Binding))
			}
			if a, b := sortedLines(inText), sortedLines(inInfo); a != b {
				c.line("reflect.txt", q("glsl TranslationInfo.Uniforms")+" "+q(b)+" "+q(a)+" "+q(src))
				c.count("glsl-reflection-mismatch")
			} else {
				c.count("glsl-reflection-ok")
			}
		}
	}
}

func init() { commands["c17"] = cmdC17 }
