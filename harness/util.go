package main

import (
	"bufio"
	"encoding/json"
	"fmt"
	"math/rand"
	"os"
	"path/filepath"
	"reflect"
	"sort"
	"strconv"
	"strings"
)

// ---------- S-expression output ----------

// q quotes a string as an S-expression atom readable by Naga.Sexp.
func q(s string) string {
	var b strings.Builder
	b.WriteByte('"')
	for _, r := range s {
		switch {
		case r == '"':
			b.WriteString("\\\"")
		case r == '\\':
			b.WriteString("\\\\")
		case r == '\n':
			b.WriteString("\\n")
		case r == '\r':
			b.WriteString("\\r")
		case r == '\t':
			b.WriteString("\\t")
		case r < 0x20 || r > 0x7e:
			fmt.Fprintf(&b, "\\u%x;", r)
		default:
			b.WriteRune(r)
		}
	}
	b.WriteByte('"')
	return b.String()
}

// qb quotes a byte string (each byte as its own code point, so invalid UTF-8 survives).
func qb(bs []byte) string {
	var b strings.Builder
	b.WriteByte('"')
	for _, c := range bs {
		switch {
		case c == '"':
			b.WriteString("\\\"")
		case c == '\\':
			b.WriteString("\\\\")
		case c < 0x20 || c > 0x7e:
			fmt.Fprintf(&b, "\\u%x;", c)
		default:
			b.WriteByte(c)
		}
	}
	b.WriteByte('"')
	return b.String()
}

// dumpValue renders any Go value as an S-expression: structs as (TypeName (Field v)...),
// slices as (list v...), nil pointers/interfaces as nil, maps sorted by key.
func dumpValue(v reflect.Value, b *strings.Builder) {
	switch v.Kind() {
	case reflect.Bool:
		if v.Bool() {
			b.WriteString("true")
		} else {
			b.WriteString("false")
		}
	case reflect.Int, reflect.Int8, reflect.Int16, reflect.Int32, reflect.Int64:
		b.WriteString(strconv.FormatInt(v.Int(), 10))
	case reflect.Uint, reflect.Uint8, reflect.Uint16, reflect.Uint32, reflect.Uint64:
		b.WriteString(strconv.FormatUint(v.Uint(), 10))
	case reflect.Float32:
		// bit pattern: floats are never compared as decimal text
		b.WriteString("f32:" + strconv.FormatUint(uint64(mathFloat32bits(float32(v.Float()))), 10))
	case reflect.Float64:
		b.WriteString("f64:" + strconv.FormatUint(mathFloat64bits(v.Float()), 10))
	case reflect.String:
		b.WriteString(q(v.String()))
	case reflect.Ptr, reflect.Interface:
		if v.IsNil() {
			b.WriteString("nil")
			return
		}
		if v.Kind() == reflect.Ptr {
			b.WriteString("(some ")
			dumpValue(v.Elem(), b)
			b.WriteString(")")
		} else {
			dumpValue(v.Elem(), b)
		}
	case reflect.Slice, reflect.Array:
		b.WriteString("(list")
		for i := 0; i < v.Len(); i++ {
			b.WriteByte(' ')
			dumpValue(v.Index(i), b)
		}
		b.WriteString(")")
	case reflect.Map:
		keys := v.MapKeys()
		strs := make([]string, len(keys))
		m := map[string]reflect.Value{}
		for i, k := range keys {
			var kb strings.Builder
			dumpValue(k, &kb)
			strs[i] = kb.String()
			m[strs[i]] = v.MapIndex(k)
		}
		sort.Strings(strs)
		b.WriteString("(map")
		for _, k := range strs {
			b.WriteString(" (")
			b.WriteString(k)
			b.WriteByte(' ')
			dumpValue(m[k], b)
			b.WriteString(")")
		}
		b.WriteString(")")
	case reflect.Struct:
		t := v.Type()
		b.WriteString("(" + t.Name())
		for i := 0; i < v.NumField(); i++ {
			b.WriteString(" (" + t.Field(i).Name + " ")
			dumpValue(v.Field(i), b)
			b.WriteString(")")
		}
		b.WriteString(")")
	case reflect.Func:
		b.WriteString("func")
	default:
		b.WriteString("?" + v.Kind().String())
	}
}

func dump(x any) string {
	var b strings.Builder
	dumpValue(reflect.ValueOf(x), &b)
	return b.String()
}

// ---------- run context ----------

type ctx struct {
	rng   *rand.Rand
	seed  int64
	tier  string
	out   string // output directory
	n     int    // case budget
	stats map[string]int
	files map[string]*bufio.Writer
	fh    []*os.File
	args  []string
	// attrConsts: when non-nil, attrNum may spell a number as a module constant AKn; the generator appends attrPrelude()
	attrConsts map[int]bool
}

func newCtx(seed int64, tier, out string, n int) *ctx {
	os.MkdirAll(out, 0o755)
	return &ctx{rng: rand.New(rand.NewSource(seed)), seed: seed, tier: tier, out: out, n: n,
		stats: map[string]int{}, files: map[string]*bufio.Writer{}}
}

func (c *ctx) w(name string) *bufio.Writer {
	if w, ok := c.files[name]; ok {
		return w
	}
	f, err := os.Create(filepath.Join(c.out, name))
	if err != nil {
		panic(err)
	}
	c.fh = append(c.fh, f)
	w := bufio.NewWriterSize(f, 1<<20)
	c.files[name] = w
	return w
}

func (c *ctx) line(name, s string) {
	if strings.ContainsAny(s, "\n\r") {
		panic("line with newline: " + s)
	}
	c.w(name).WriteString(s)
	c.w(name).WriteByte('\n')
}

func (c *ctx) count(k string) { c.stats[k]++ }

func (c *ctx) close() {
	b, _ := json.MarshalIndent(c.stats, "", " ")
	os.WriteFile(filepath.Join(c.out, "stats.json"), b, 0o644)
	for _, w := range c.files {
		w.Flush()
	}
	for _, f := range c.fh {
		f.Close()
	}
}

func (c *ctx) pick(xs ...string) string { return xs[c.rng.Intn(len(xs))] }
func (c *ctx) chance(p float64) bool    { return c.rng.Float64() < p }

// attrNum spells the non-negative attribute argument n as WGSL allows: decimal (mostly), with a `u` / `i` suffix, or hexadecimal.
// attrPrelude: declarations of the module constants attrNum referred to (module-scope order is irrelevant in WGSL).
func (c *ctx) attrPrelude() string {
	ks := make([]int, 0, len(c.attrConsts))
	for k := range c.attrConsts {
		ks = append(ks, k)
	}
	sort.Ints(ks)
	var b strings.Builder
	for _, k := range ks {
		if k%2 == 0 {
			fmt.Fprintf(&b, "const AK%d = %d;\n", k, k)
		} else {
			fmt.Fprintf(&b, "const AK%d: u32 = %du;\n", k, k)
		}
	}
	return b.String()
}

// attrNum: a spelling of the attribute argument n — the grammar takes a const-expression there, not only a literal.
func (c *ctx) attrNum(n int) string {
	if c.attrConsts != nil && c.chance(0.3) {
		switch c.rng.Intn(5) {
		case 0:
			return fmt.Sprintf("(%d)", n)
		case 1:
			return fmt.Sprintf("%d + 0", n)
		case 2:
			return fmt.Sprintf("(%d * 2) / 2", n)
		case 3:
			c.attrConsts[n] = true
			return fmt.Sprintf("AK%d", n)
		default:
			c.attrConsts[n+1] = true
			return fmt.Sprintf("AK%d - 1", n+1)
		}
	}
	switch r := c.rng.Intn(20); {
	case r < 13:
		return fmt.Sprintf("%d", n)
	case r < 15:
		return fmt.Sprintf("%du", n)
	case r < 16:
		return fmt.Sprintf("%di", n)
	case r < 18:
		return fmt.Sprintf("0x%x", n)
	case r < 19:
		return fmt.Sprintf("0X%Xu", n)
	default:
		return fmt.Sprintf("%d,", n) // trailing comma
	}
}
