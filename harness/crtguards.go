package main

// crtguards — the run-time-sized array guards of the MSL writer (C15): for a storage struct `{ prefix…, data: array<E> }`
// every dynamic access to `data[i]` under the Buffer policies ReadZeroSkipWrite and Restrict is bounded by
//     (_buffer_sizes.sizeK - OFF - A) / B
// The probe extracts (OFF, A, B) from the real text; the WGSL layout prescribes OFF = offset of `data`,
// A = size of E, B = stride of E — the hypotheses under which Props/C15.msl_runtime_elem_in_buffer shows that every
// admitted index addresses an element lying inside the binding.

import (
	"fmt"
	"regexp"
	"strings"

	"github.com/gogpu/naga/msl"
)

var reMslTemplateFn = regexp.MustCompile(`(?s)template <typename A>\n.*?\n}\n`)
var reRtGuard = regexp.MustCompile(`_buffer_sizes\.size(\d+) - (\d+) - (\d+)\) / (\d+)`)

func cmdCRtGuards(c *ctx) {
	elems := []*lty{
		{kind: "scalar", sc: "u32"}, {kind: "scalar", sc: "f32"}, {kind: "vec", n: 2, sc: "f32"}, {kind: "vec", n: 3, sc: "f32"}, {kind: "vec", n: 3, sc: "u32"},
		{kind: "vec", n: 4, sc: "i32"}, {kind: "mat", c: 2, r: 2, sc: "f32"}, {kind: "mat", c: 3, r: 3, sc: "f32"}, {kind: "mat", c: 4, r: 3, sc: "f32"},
		{kind: "arr", elem: &lty{kind: "vec", n: 3, sc: "f32"}, count: 2}, {kind: "arr", elem: &lty{kind: "scalar", sc: "u32"}, count: 3},
		{kind: "atomic", sc: "u32"},
	}
	prefixes := [][]*lty{{}, {{kind: "scalar", sc: "u32"}}, {{kind: "vec", n: 3, sc: "f32"}}, {{kind: "scalar", sc: "u32"}, {kind: "vec", n: 2, sc: "f32"}},
		{{kind: "mat", c: 3, r: 3, sc: "f32"}, {kind: "scalar", sc: "f32"}}}
	// a struct element whose size is rounded up to its alignment, and one with a vec3 tail
	se := &lty{kind: "struct", name: "E0", members: []lmember{{ty: &lty{kind: "vec", n: 3, sc: "f32"}}, {ty: &lty{kind: "scalar", sc: "u32"}}}}
	se2 := &lty{kind: "struct", name: "E1", members: []lmember{{ty: &lty{kind: "vec", n: 2, sc: "f32"}}, {ty: &lty{kind: "vec", n: 3, sc: "u32"}}}}
	elems = append(elems, se, se2)
	for ei, e := range elems {
		for pi := -1; pi < len(prefixes); pi++ {
			var pre []*lty
			if pi >= 0 {
				pre = prefixes[pi]
			}
			bare := pi < 0 // the global is itself the run-time-sized array: `var<storage, read_write> buf: array<E>`
			top := &lty{kind: "struct", name: "Top"}
			for _, p := range pre {
				top.members = append(top.members, lmember{ty: p})
			}
			top.members = append(top.members, lmember{ty: &lty{kind: "arr", elem: e, count: 0}})
			// expected layout numbers from the generator-side WGSL layout (the same code C07 uses to choose valid @align/@size)
			off := 0
			for _, m := range top.members[:len(top.members)-1] {
				off = roundUp(m.ty.alignOf(), off) + m.ty.sizeOf()
			}
			off = roundUp(e.alignOf(), off)
			esz, stride := e.sizeOf(), roundUp(e.alignOf(), e.sizeOf())
			var b strings.Builder
			if e.kind == "struct" {
				fmt.Fprintf(&b, "struct %s {\n", e.name)
				for i, m := range e.members {
					fmt.Fprintf(&b, "  m%d: %s,\n", i, m.ty.wgsl())
				}
				b.WriteString("}\n")
			}
			data := fmt.Sprintf("buf.m%d", len(top.members)-1)
			// declaration order: the members of _mslBufferSizes are named after the global's handle, not after its position
			// among the globals that own a run-time-sized array
			order := (ei + pi + 1) % 3
			bufDecl := "@group(0) @binding(0) var<storage, read_write> buf: Top;\n"
			if bare {
				bufDecl = fmt.Sprintf("@group(0) @binding(0) var<storage, read_write> buf: array<%s>;\n", e.wgsl())
				data = "buf"
			} else {
				b.WriteString("struct Top {\n")
				for i, m := range top.members {
					fmt.Fprintf(&b, "  m%d: %s,\n", i, m.ty.wgsl())
				}
				b.WriteString("}\n")
			}
			inpDecl := "@group(0) @binding(1) var<storage, read> inp: array<u32>;\n"
			uniDecl := "@group(0) @binding(2) var<uniform> uni: vec4<u32>;\n"
			bufHandle, inpHandle := "0", "1"
			switch order {
			case 0:
				b.WriteString(bufDecl + inpDecl)
			case 1:
				b.WriteString(uniDecl + inpDecl + bufDecl)
				bufHandle, inpHandle = "2", "1"
			default:
				b.WriteString(inpDecl + uniDecl + bufDecl)
				bufHandle, inpHandle = "2", "0"
			}
			g := &c07gen{c: c}
			p := g.path(e)
			lit := map[string]string{"f32": "1.0", "i32": "1i", "u32": "1u"}[p.leaf.sc]
			acc := fmt.Sprintf("%s[inp[0]]%s", data, p.wgsl)
			bodyKind := ""
			body := fmt.Sprintf("  %s = %s;\n", acc, lit)
			if p.leaf.kind == "atomic" {
				body = fmt.Sprintf("  atomicStore(&%s, %s);\n  let r = atomicAdd(&%s, %s);\n", acc, lit, acc, lit)
				if (ei+pi)%2 == 0 {
					// the compare-exchange form on its own (recorded finding: its guard is malformed)
					bodyKind = " body=cmpxchg"
					body = fmt.Sprintf("  let x = atomicCompareExchangeWeak(&%s, %s, %s);\n", acc, lit, lit)
				}
			} else if (ei+pi)%2 == 1 {
				body = fmt.Sprintf("  let x = %s;\n  %s[1u]%s = x;\n", acc, data, p.wgsl)
			}
			if order != 0 {
				body += "  let keep = uni.x;\n"
			}
			src := b.String() + "@compute @workgroup_size(1)\nfn main() {\n" + body + "}\n"
			mod, res := frontEnd(src)
			if mod == nil {
				c.count("frontend-rejected")
				c.line("rejected.txt", q(src)+" "+q(fmt.Sprint(res)))
				continue
			}
			for _, pol := range []msl.BoundsCheckPolicy{msl.BoundsCheckReadZeroSkipWrite, msl.BoundsCheckRestrict} {
				o := msl.DefaultOptions()
				o.BoundsCheckPolicies.Buffer = pol
				o.BoundsCheckPolicies.Index = pol
				var text string
				r := guard("msl", func() error { t, _, err := msl.Compile(mod, o); text = t; return err })
				tag := fmt.Sprintf("elem=%s prefix=%d policy=%s order=%d", strings.ReplaceAll(e.wgsl(), " ", ""), pi, polName(pol), order) + bodyKind
				if r.err != "" {
					c.line("rows.txt", fmt.Sprintf("error %s | %s", oneLine(r.err), tag))
					c.line("src.txt", q(src))
					c.line("text.txt", q(text))
					continue
				}
				// the text must also be readable (atomics take the address of the guarded element); the templated
				// compare-exchange helpers are outside the grammar the parser reads and are cut out first
				if _, perr := cparse(reMslTemplateFn.ReplaceAllString(text, "")); perr != nil {
					c.line("rows.txt", fmt.Sprintf("unreadable %s | %s", oneLine(perr.Error()), tag))
					c.line("src.txt", q(src))
					c.line("text.txt", q(text))
					continue
				}
				ms := reRtGuard.FindAllStringSubmatch(text, -1)
				if len(ms) == 0 {
					c.line("rows.txt", "noguard | "+tag)
					c.line("src.txt", q(src))
					c.line("text.txt", q(text))
					continue
				}
				nbuf := 0
				for _, m := range ms {
					if m[1] == bufHandle {
						nbuf++
					} else if m[1] != inpHandle {
						c.line("rows.txt", fmt.Sprintf("guard names _buffer_sizes.size%s, which is neither the accessed buffer (size%s) nor inp (size%s) | %s", m[1], bufHandle, inpHandle, tag))
						c.line("src.txt", q(src))
						c.line("text.txt", q(text))
					}
				}
				// every access `buf…[inp[0]]` written in the body is bounded by buf's own length
				if want := strings.Count(body, data+"[inp[0]]"); nbuf < want {
					c.line("rows.txt", fmt.Sprintf("only %d of the %d accesses to the buffer are bounded by its own length _buffer_sizes.size%s | %s", nbuf, want, bufHandle, tag))
					c.line("src.txt", q(src))
					c.line("text.txt", q(text))
				}
				for _, m := range ms {
					if m[1] != bufHandle {
						continue // the guard of `inp`
					}
					c.line("rows.txt", fmt.Sprintf("guard off=%s esz=%s stride=%s want off=%d esz=%d stride=%d | %s", m[2], m[3], m[4], off, esz, stride, tag))
					c.line("src.txt", q(src))
					c.line("text.txt", q(text))
					c.count("guards")
				}
			}
		}
	}
}

func init() { commands["crtguards"] = cmdCRtGuards }
