package main

// c16e2e: compile a one-variable program whose local is spelled <word> with each text backend and
// report whether the bare word survives as an identifier in the output.

import (
	"fmt"
	"regexp"

	"github.com/gogpu/naga"
	"github.com/gogpu/naga/glsl"
	"github.com/gogpu/naga/hlsl"
	"github.com/gogpu/naga/msl"
)

func cmdC16E2E(c *ctx) {
	for _, word := range c.args {
		src := fmt.Sprintf("@group(0) @binding(0) var<storage, read_write> buf: array<i32>;\n@compute @workgroup_size(1) fn main() { var %s: i32 = 1; buf[0] = %s; }\n", word, word)
		re := regexp.MustCompile(`(^|[^A-Za-z0-9_])` + regexp.QuoteMeta(word) + `\s*(=[^=]|;)`)
		ast, err := naga.Parse(src)
		if err != nil {
			c.line("e2e.txt", fmt.Sprintf("%s parse-error %s", word, oneLine(err.Error())))
			continue
		}
		m, err := naga.LowerWithSource(ast, src)
		if err != nil {
			c.line("e2e.txt", fmt.Sprintf("%s lower-error %s", word, oneLine(err.Error())))
			continue
		}
		res := ""
		if out, _, err := hlsl.Compile(m, hlsl.DefaultOptions()); err == nil {
			res += fmt.Sprintf(" hlsl=%v", re.MatchString(out))
		}
		mo := msl.DefaultOptions()
		if out, _, err := msl.Compile(m, mo); err == nil {
			res += fmt.Sprintf(" msl=%v", re.MatchString(out))
		}
		if out, _, err := glsl.Compile(m, glsl.Options{LangVersion: glsl.Version430, EntryPoint: "main"}); err == nil {
			res += fmt.Sprintf(" glsl=%v", re.MatchString(out))
		}
		c.line("e2e.txt", word+res)
		c.line("e2e-src.txt", q(src))
	}
}

func init() { commands["c16e2e"] = cmdC16E2E }
