package main

import (
	"fmt"
	"sort"
)

// spvops: histogram of SPIR-V opcodes (and GLSL.std.450 ext-inst numbers) over generated programs.
func cmdSpvOps(c *ctx) {
	ops := map[string]int{}
	for i := 0; i < c.n; i++ {
		m, _ := genModule(c, defaultGenOpts(c))
		mod, _ := frontEnd(m.wgsl())
		if mod == nil {
			continue
		}
		outs, _ := backends(mod, "main")
		sm, err := decodeSPV(outs.spv)
		if err != nil {
			continue
		}
		for _, in := range sm.Insts {
			k := fmt.Sprint(in.Op)
			if in.Op == 12 && len(in.Words) > 3 {
				k = fmt.Sprintf("12:ext%d", in.Words[3])
			}
			ops[k]++
		}
	}
	ks := make([]string, 0, len(ops))
	for k := range ops {
		ks = append(ks, k)
	}
	sort.Strings(ks)
	for _, k := range ks {
		fmt.Printf("%s=%d ", k, ops[k])
	}
	fmt.Println()
}

func init() { commands["spvops"] = cmdSpvOps }
