package main

// cflow — control-flow skeletons for the statement-level tie of C03/C04/C05 (Naga.Model.CFlow):
//  * irSkel: the control-flow skeleton of a naga IR function body (what Lean's `emitS` is applied to);
//  * cSkel:  the control-flow skeleton of the emitted text's function body, read from the cparse AST;
// both with every non-control statement erased.  Lean checks `erase (emit irSkel) = cSkel` and the
// well-formedness side conditions of the statement-level theorem.

import (
	"fmt"
	"strings"

	"github.com/gogpu/naga/glsl"
	"github.com/gogpu/naga/hlsl"
	"github.com/gogpu/naga/ir"
	"github.com/gogpu/naga/msl"
)

func irSkelBlock(b ir.Block) string {
	var parts []string
	for _, s := range b {
		if p := irSkelStmt(s); p != "" {
			parts = append(parts, p)
		}
	}
	return "(" + strings.Join(parts, " ") + ")"
}

func irSkelStmt(s ir.Statement) string {
	switch k := s.Kind.(type) {
	case ir.StmtEmit:
		return "(act)" // kept: `len(block)` tests of the writers count Emit statements
	case ir.StmtBlock:
		return "(block " + irSkelBlock(k.Block) + ")"
	case ir.StmtIf:
		return fmt.Sprintf("(ite %s %s)", irSkelBlock(k.Accept), irSkelBlock(k.Reject))
	case ir.StmtSwitch:
		var b strings.Builder
		b.WriteString("(switch")
		for _, c := range k.Cases {
			v := "d"
			switch x := c.Value.(type) {
			case ir.SwitchValueI32:
				v = fmt.Sprint(int32(x))
			case ir.SwitchValueU32:
				v = fmt.Sprint(uint32(x))
			}
			ft := 0
			if c.FallThrough {
				ft = 1
			}
			fmt.Fprintf(&b, " (case %s %d %s)", v, ft, irSkelBlock(c.Body))
		}
		b.WriteString(")")
		return b.String()
	case ir.StmtLoop:
		bi := 0
		if k.BreakIf != nil {
			bi = 1
		}
		return fmt.Sprintf("(loop %s %s %d)", irSkelBlock(k.Body), irSkelBlock(k.Continuing), bi)
	case ir.StmtBreak:
		return "(brk)"
	case ir.StmtContinue:
		return "(cont)"
	case ir.StmtReturn, ir.StmtKill:
		return "(ret)"
	}
	return "(act)"
}

func isFlagName(n string) (string, bool) {
	if strings.HasPrefix(n, "loop_init") {
		return "gate", true
	}
	if strings.HasPrefix(n, "should_continue") {
		return "fwd", true
	}
	return "", false
}

func flagOfExpr(n *snode) (string, bool) { // (id flag) / (un ! (id flag))
	n = stripParen(n)
	if n.head() == "id" {
		if _, ok := isFlagName(n.kids[1].atom); ok {
			return "f", true
		}
	}
	if n.head() == "un" && n.kids[1].atom == "!" {
		x := stripParen(n.kids[2])
		if x.head() == "id" {
			if _, ok := isFlagName(x.kids[1].atom); ok {
				return "n", true
			}
		}
	}
	return "", false
}

func mentionsLoopBound(n *snode) bool {
	if n == nil {
		return false
	}
	if !n.list {
		return strings.HasPrefix(n.atom, "loop_bound")
	}
	for _, k := range n.kids {
		if mentionsLoopBound(k) {
			return true
		}
	}
	return false
}

// cSkelStmts: skeleton of a statement list; a flag declaration scopes over the statements that follow it
// in the same list and mention the flag (the loop / the switch and its forwarding test).
func cSkelStmts(ss []*snode) string {
	var parts []string
	for i := 0; i < len(ss); i++ {
		st := ss[i]
		if st.head() == "decl" && len(st.kids) >= 5 && st.kids[2].head() == "ty" && st.kids[2].kids[1].atom == "bool" {
			if _, ok := isFlagName(st.kids[3].atom); ok {
				init := "0"
				if st.kids[4].head() == "bool" && st.kids[4].kids[1].atom == "1" {
					init = "1"
				}
				name := st.kids[3].atom
				// the flag scopes over the construct it was declared for (the next statement) and the forwarding test after it
				j := i + 1
				if j < len(ss) {
					j++
				}
				for j < len(ss) && mentions(ss[j], name) {
					j++
				}
				parts = append(parts, "(withflag "+init+" "+cSkelStmts(ss[i+1:j])+")")
				i = j - 1
				continue
			}
		}
		if p := cSkelStmt(st); p != "" {
			parts = append(parts, p)
		}
	}
	return "(" + strings.Join(parts, " ") + ")"
}

func mentions(n *snode, name string) bool {
	if n == nil {
		return false
	}
	if !n.list {
		return n.atom == name
	}
	for _, k := range n.kids {
		if mentions(k, name) {
			return true
		}
	}
	return false
}

func asList(n *snode) []*snode {
	if n.head() == "block" {
		return n.kids[1:]
	}
	return []*snode{n}
}

func cSkelStmt(st *snode) string {
	switch st.head() {
	case "block":
		return "(block " + cSkelStmts(st.kids[1:]) + ")"
	case "empty":
		return ""
	case "decl":
		if mentionsLoopBound(st) {
			return "" // ForceLoopBounding counter: outside the model
		}
		return "(act)"
	case "expr":
		e := stripParen(st.kids[1])
		if mentionsLoopBound(e) {
			return ""
		}
		if e.head() == "asg" && e.kids[1].atom == "=" {
			l := stripParen(e.kids[2])
			if l.head() == "id" {
				if _, ok := isFlagName(l.kids[1].atom); ok {
					v := "0"
					r := stripParen(e.kids[3])
					if r.head() == "bool" && r.kids[1].atom == "1" {
						v = "1"
					}
					return "(set " + v + ")"
				}
			}
		}
		return "(act)"
	case "if":
		if mentionsLoopBound(st.kids[1]) {
			return ""
		}
		k := "c"
		if f, ok := flagOfExpr(st.kids[1]); ok {
			k = f
		}
		t := cSkelStmts(asList(st.kids[2]))
		e := "()"
		if len(st.kids) > 3 {
			e = cSkelStmts(asList(st.kids[3]))
		}
		return fmt.Sprintf("(ite %s %s %s)", k, t, e)
	case "while":
		return "(while " + cSkelStmts(asList(st.kids[2])) + ")"
	case "dowhile":
		return "(do " + cSkelStmts(asList(st.kids[1])) + ")"
	case "for":
		return "(other for)"
	case "switch":
		var parts []string
		for _, it := range st.kids[2:] {
			switch it.head() {
			case "case":
				v := stripParen(it.kids[1])
				val := "?"
				if v.head() == "int" || v.head() == "uint" {
					val = v.kids[1].atom
				} else if v.head() == "un" && v.kids[1].atom == "-" && stripParen(v.kids[2]).head() == "int" {
					val = "-" + stripParen(v.kids[2]).kids[1].atom
				}
				parts = append(parts, "(label "+val+")")
			case "default":
				parts = append(parts, "(label d)")
			default:
				if p := cSkelStmt(it); p != "" {
					parts = append(parts, p)
				}
			}
		}
		return "(switch " + strings.Join(parts, " ") + ")"
	case "break":
		return "(brk)"
	case "continue":
		return "(cont)"
	case "return", "discard":
		return "(ret)"
	}
	return "(other " + st.head() + ")"
}

// cflowOne: one WGSL source -> for every function: (cflow DIALECT (ir SKEL) (c SKEL)).
func cflowOne(c *ctx, dialect, src, tag string, bound bool) {
	mod, _ := frontEnd(src)
	if mod == nil {
		c.count("rejected")
		return
	}
	var text string
	var r stageResult
	switch dialect {
	case "hlsl":
		op := hlsl.DefaultOptions()
		op.ForceLoopBounding = bound
		r = guard("hlsl", func() error { s, _, err := hlsl.Compile(mod, op); text = s; return err })
	case "msl":
		op := msl.DefaultOptions()
		op.ForceLoopBounding = bound
		// bounds-check guards are `if`s of their own; the control-flow tie is made on unguarded text
		op.BoundsCheckPolicies.Index = msl.BoundsCheckUnchecked
		op.BoundsCheckPolicies.Buffer = msl.BoundsCheckUnchecked
		r = guard("msl", func() error { s, _, err := msl.Compile(mod, op); text = s; return err })
	case "glsl":
		r = guard("glsl", func() error {
			s, _, err := glsl.Compile(mod, glsl.Options{LangVersion: glsl.Version430, EntryPoint: "main"})
			text = s
			return err
		})
	}
	if r.err != "" {
		c.count("backend-error")
		return
	}
	unit, perr := cparse(text)
	if perr != nil {
		c.count("cparse-error")
		return
	}
	u := sparse(unit)
	byName := map[string]*snode{}
	for _, f := range funcsOf(u) {
		byName[strings.TrimSuffix(f.kids[3].atom, "_")] = f
	}
	emit := func(name string, body ir.Block) {
		f, ok := byName[strings.TrimSuffix(name, "_")]
		if !ok {
			c.count("function-not-in-text")
			return
		}
		c.line("cases.txt", fmt.Sprintf("(cflow %s (ir %s) (c %s))", dialect, irSkelBlock(body), cSkelStmts(f.kids[5].kids[1:])))
		c.line("src.txt", q(src))
		c.line("text.txt", q(text))
		c.line("tags.txt", tag+":"+dialect+" fn="+name)
		c.count("functions")
	}
	for fi := range mod.Functions {
		emit(mod.Functions[fi].Name, mod.Functions[fi].Body)
	}
	if tag == "cflowenum" {
		return // the entry point is the same one-call body in every enumerated program
	}
	for ei := range mod.EntryPoints {
		emit(mod.EntryPoints[ei].Name, mod.EntryPoints[ei].Function.Body)
	}
}

// cmdCFlow: generated programs (`cflow D`) or the exhaustive enumeration of small statement trees (`cflow D enum SIZE`).
func cmdCFlow(c *ctx) {
	dialect := "msl"
	if len(c.args) > 0 {
		dialect = c.args[0]
	}
	if len(c.args) > 2 && c.args[1] == "enum" {
		size := 4
		fmt.Sscan(c.args[2], &size)
		cflowEnum(c, dialect, size)
		return
	}
	for i := 0; i < c.n; i++ {
		o := defaultGenOpts(c)
		setKnob(&o, "clean")
		o.swBreak = c.chance(0.3)
		o.contCall = c.chance(0.15)
		o.fwdNest = c.chance(0.2)
		m, _ := genModule(c, o)
		cflowOne(c, dialect, m.wgsl(), "cflow", c.chance(0.5))
	}
}

func init() { commands["cflow"] = cmdCFlow }
