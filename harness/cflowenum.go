package main

// cflowenum — exhaustive small-scope side of the statement-level tie: every WGSL statement tree of at most SIZE
// nodes over {assignment, if/else, loop (plain / continuing / break-if), while, switch (default only, two bodies,
// multi-selector cases, default first), nested block, break, continue, return}, placed where WGSL allows them,
// goes through the real front end and the real writer; the skeleton comparison is the same as for generated programs.

import (
	"fmt"
	"strings"
)

type enumCtx struct{ brk, cont, ret bool }

func (e enumCtx) key(n int) string { return fmt.Sprintf("%d/%v/%v/%v", n, e.brk, e.cont, e.ret) }

type stmtEnum struct {
	stmts  map[string][]string
	blocks map[string][]string
}

// block(n): statement lists with exactly n nodes (n = 0: the empty list).
func (g *stmtEnum) block(n int, e enumCtx) []string {
	if n == 0 {
		return []string{""}
	}
	k := e.key(n)
	if r, ok := g.blocks[k]; ok {
		return r
	}
	var out []string
	for first := 1; first <= n; first++ {
		for _, s := range g.stmt(first, e) {
			for _, rest := range g.block(n-first, e) {
				out = append(out, s+" "+rest)
			}
		}
	}
	g.blocks[k] = out
	return out
}

func (g *stmtEnum) stmt(n int, e enumCtx) []string {
	k := e.key(n)
	if r, ok := g.stmts[k]; ok {
		return r
	}
	var out []string
	if n == 1 {
		out = append(out, "g = g + 1u;")
		if e.brk {
			out = append(out, "break;")
		}
		if e.cont {
			out = append(out, "continue;")
		}
		if e.ret {
			out = append(out, "return;")
		}
	}
	m := n - 1
	// if / else
	for a := 0; a <= m; a++ {
		for _, t := range g.block(a, e) {
			for _, el := range g.block(m-a, e) {
				if m-a == 0 {
					out = append(out, "if g > 3u { "+t+"}")
				} else {
					out = append(out, "if g > 3u { "+t+"} else { "+el+"}")
				}
			}
		}
	}
	// nested block
	if m >= 1 {
		for _, b := range g.block(m, e) {
			out = append(out, "{ "+b+"}")
		}
	}
	// loops
	inBody := enumCtx{brk: true, cont: true, ret: e.ret}
	inCont := enumCtx{}
	for _, b := range g.block(m, inBody) {
		out = append(out, "loop { "+b+"}")
		out = append(out, "while g < 9u { "+b+"}")
		out = append(out, "loop { "+b+"continuing { break if g > 7u; } }")
	}
	for a := 0; a < m; a++ {
		for _, b := range g.block(a, inBody) {
			for _, ct := range g.block(m-a, inCont) {
				out = append(out, "loop { "+b+"continuing { "+ct+"} }")
				out = append(out, "loop { "+b+"continuing { "+ct+"break if g > 7u; } }")
			}
		}
	}
	// switches
	inCase := enumCtx{brk: true, cont: e.cont, ret: e.ret}
	for _, b := range g.block(m, inCase) {
		out = append(out, "switch g { default: { "+b+"} }")
		out = append(out, "switch g { case 1u, 2u, default: { "+b+"} }")
	}
	for a := 0; a <= m; a++ {
		for _, b1 := range g.block(a, inCase) {
			for _, b2 := range g.block(m-a, inCase) {
				out = append(out, "switch g { case 1u: { "+b1+"} default: { "+b2+"} }")
				if m >= 1 {
					out = append(out, "switch g { case 1u, 2u: { "+b1+"} case 5u, default: { "+b2+"} }")
					out = append(out, "switch g { default: { "+b1+"} case 4u: { "+b2+"} }")
				}
			}
		}
	}
	g.stmts[k] = out
	return out
}

func cflowEnum(c *ctx, dialect string, size int) {
	g := &stmtEnum{stmts: map[string][]string{}, blocks: map[string][]string{}}
	top := enumCtx{ret: true}
	var all []string
	for n := 1; n <= size; n++ {
		all = append(all, g.block(n, top)...)
	}
	c.stats["enumerated"] += len(all)
	// c.n caps the number of trees actually run (evenly spaced, the small ones first are all kept)
	step := 1
	if c.n > 0 && len(all) > c.n {
		step = (len(all) + c.n - 1) / c.n
	}
	for i := 0; i < len(all); i += step {
		body := strings.TrimSpace(all[i])
		src := "var<private> g: u32;\nfn f() { " + body + " }\n@compute @workgroup_size(1) fn main() { f(); }\n"
		cflowOne(c, dialect, src, "cflowenum", i%2 == 1)
	}
}
