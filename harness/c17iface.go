package main

// c17iface — stage interfaces of vertex / fragment entry points in every argument shape: bare @builtin and @location
// arguments and struct arguments (members mixing locations and builtins) in any order and number, bare or struct results.
// For every text back end the emitted text must be readable by the independent parser (no nameless parameters, no empty
// member references), and the set of user locations on the input side and on the output side of the entry point, read
// from the text (MSL `[[user(locN)]]` / `[[color(N)]]`, GLSL `layout(location = N) in|out`, HLSL `LOCN` / `SV_TargetN`),
// must be exactly the locations the WGSL declares (C17: stage interfaces survive translation exactly).

import (
	"github.com/gogpu/naga/ir"
	"fmt"
	"regexp"
	"sort"
	"strings"

	"github.com/gogpu/naga/glsl"
	"github.com/gogpu/naga/hlsl"
	"github.com/gogpu/naga/msl"
)

type ifaceField struct {
	name, ty, attr string
	loc            int // -1: builtin
}

func (c *ctx) ifaceFields(stage string, dirIn bool, prefix string, n int, usedLoc map[int]bool, usedBuiltin map[string]bool) []ifaceField {
	var out []ifaceField
	tys := []string{"f32", "vec2<f32>", "vec4<f32>", "u32", "i32", "vec3<f32>"}
	var builtins [][2]string
	switch {
	case stage == "vertex" && dirIn:
		builtins = [][2]string{{"vertex_index", "u32"}, {"instance_index", "u32"}}
	case stage == "fragment" && dirIn:
		builtins = [][2]string{{"front_facing", "bool"}, {"sample_index", "u32"}, {"position", "vec4<f32>"}}
	}
	for i := 0; i < n; i++ {
		if len(builtins) > 0 && c.chance(0.35) {
			b := builtins[c.rng.Intn(len(builtins))]
			if !usedBuiltin[b[0]] {
				usedBuiltin[b[0]] = true
				out = append(out, ifaceField{name: fmt.Sprintf("%sb%d", prefix, i), ty: b[1], attr: "@builtin(" + b[0] + ")", loc: -1})
				continue
			}
		}
		loc := c.rng.Intn(8)
		for usedLoc[loc] {
			loc = (loc + 1) % 16
		}
		usedLoc[loc] = true
		ty := tys[c.rng.Intn(len(tys))]
		attr := fmt.Sprintf("@location(%d)", loc)
		if (ty == "u32" || ty == "i32") && !(stage == "vertex" && dirIn) {
			attr += " @interpolate(flat)"
		}
		out = append(out, ifaceField{name: fmt.Sprintf("%sl%d", prefix, i), ty: ty, attr: attr, loc: loc})
	}
	return out
}

func cmdC17Iface(c *ctx) {
	reMslIn := regexp.MustCompile(`\[\[user\(loc(\d+)\)`)
	reMslAttr := regexp.MustCompile(`\[\[attribute\((\d+)\)\]\]`)
	reGlslIn := regexp.MustCompile(`layout\(location = (\d+)\)\s*(?:flat |smooth |noperspective |centroid |sample )*in\b`)
	reGlslOut := regexp.MustCompile(`layout\(location = (\d+)\)\s*(?:flat |smooth |noperspective |centroid |sample )*out\b`)
	reHlslLoc := regexp.MustCompile(`:\s*LOC(\d+)\b`)
	c17ComputeBuiltins(c)
	c17WorkgroupSizeOverride(c)
	c17SamplerPairs(c)
	for i := 0; i < c.n; i++ {
		stage := []string{"vertex", "fragment"}[c.rng.Intn(2)]
		usedLoc, usedB := map[int]bool{}, map[string]bool{}
		var sb strings.Builder
		var params, uses []string
		var inLocs []int
		nargs := 1 + c.rng.Intn(4)
		// name clashes (C16): members, arguments, locals and struct types take spellings from one small pool — a member may
		// share its name with a bare argument (different WGSL scopes), a local may be called `_tmp`, a struct may be called
		// like the interface structs the writers generate (`FragmentInput_fs`, `fsInput`, `vsOutput` …)
		clash := c.chance(0.5)
		pool := []string{"x", "v", "pos", "_tmp", "value", "o", "member", "input", "output"}
		pick := func(def string, taken map[string]bool) string {
			n := def
			if clash && c.chance(0.6) {
				n = pool[c.rng.Intn(len(pool))]
			}
			if taken[n] {
				n = def
			}
			taken[n] = true
			return n
		}
		argNames := map[string]bool{}
		structNames := map[string]bool{"VOut": true}
		sname := func(def string) string {
			n := def
			if clash && c.chance(0.5) {
				n = []string{"FragmentInput_fs", "VertexInput_vs", "VertexOutput_vs", "FragmentOutput_fs", "fsInput", "vsInput", "vsOutput", "fsOutput"}[c.rng.Intn(8)]
			}
			if structNames[n] {
				n = def
			}
			structNames[n] = true
			return n
		}
		for a := 0; a < nargs; a++ {
			if c.chance(0.4) {
				fs := c.ifaceFields(stage, true, fmt.Sprintf("s%d", a), 1+c.rng.Intn(3), usedLoc, usedB)
				members := map[string]bool{}
				for k := range fs {
					fs[k].name = pick(fs[k].name, members)
				}
				stName := sname(fmt.Sprintf("In%d", a))
				argName := pick(fmt.Sprintf("a%d", a), argNames)
				fmt.Fprintf(&sb, "struct %s {\n", stName)
				for _, f := range fs {
					fmt.Fprintf(&sb, "  %s %s: %s,\n", f.attr, f.name, f.ty)
					uses = append(uses, fmt.Sprintf("%s.%s", argName, f.name)+"|"+f.ty)
					if f.loc >= 0 {
						inLocs = append(inLocs, f.loc)
					}
				}
				sb.WriteString("}\n")
				params = append(params, fmt.Sprintf("%s: %s", argName, stName))
			} else {
				f := c.ifaceFields(stage, true, fmt.Sprintf("p%d", a), 1, usedLoc, usedB)[0]
				f.name = pick(f.name, argNames)
				params = append(params, fmt.Sprintf("%s %s: %s", f.attr, f.name, f.ty))
				uses = append(uses, f.name+"|"+f.ty)
				if f.loc >= 0 {
					inLocs = append(inLocs, f.loc)
				}
			}
		}
		// fold every input into one f32 so that nothing is dead
		acc := "0.0"
		for _, u := range uses {
			p := strings.SplitN(u, "|", 2)
			switch p[1] {
			case "f32":
				acc += " + " + p[0]
			case "u32", "i32":
				acc += " + f32(" + p[0] + ")"
			case "bool":
				acc += " + select(0.0, 1.0, " + p[0] + ")"
			default:
				acc += " + " + p[0] + ".x"
			}
		}
		var outLocs []int
		if stage == "vertex" {
			outUsed := map[int]bool{}
			fs := c.ifaceFields("vertex", false, "o", c.rng.Intn(3), outUsed, map[string]bool{})
			sb.WriteString("struct VOut {\n  @builtin(position) pos: vec4<f32>,\n")
			for _, f := range fs {
				fmt.Fprintf(&sb, "  %s %s: %s,\n", f.attr, f.name, f.ty)
				outLocs = append(outLocs, f.loc)
			}
			sb.WriteString("}\n")
			lo := pick("o", argNames) // the local shares the function scope with the parameters
			fmt.Fprintf(&sb, "@vertex\nfn vs(%s) -> VOut {\n  var %s: VOut;\n  %s.pos = vec4<f32>(%s);\n", strings.Join(params, ", "), lo, lo, acc)
			for _, f := range fs {
				fmt.Fprintf(&sb, "  %s.%s = %s(%s);\n", lo, f.name, f.ty, map[bool]string{true: "1", false: "1.0"}[f.ty == "u32" || f.ty == "i32"])
			}
			fmt.Fprintf(&sb, "  return %s;\n}\n", lo)
		} else {
			outLocs = []int{0}
			fmt.Fprintf(&sb, "@fragment\nfn fs(%s) -> @location(0) vec4<f32> {\n  return vec4<f32>(%s);\n}\n", strings.Join(params, ", "), acc)
		}
		src := sb.String()
		mod, res := frontEnd(src)
		if mod == nil {
			c.count("frontend-rejected")
			c.line("rejected.txt", q(src)+" "+q(fmt.Sprint(res)))
			continue
		}
		sort.Ints(inLocs)
		sort.Ints(outLocs)
		ep := map[string]string{"vertex": "vs", "fragment": "fs"}[stage]
		report := func(dialect, what, text string) {
			c.line("violations.txt", q(dialect+": "+what)+" "+q(src)+" "+q(text))
			c.count("violations")
		}
		locSet := func(re *regexp.Regexp, text string) []int {
			seen := map[int]bool{}
			var out []int
			for _, m := range re.FindAllStringSubmatch(text, -1) {
				var n int
				fmt.Sscan(m[1], &n)
				if !seen[n] {
					seen[n] = true
					out = append(out, n)
				}
			}
			sort.Ints(out)
			return out
		}
		check := func(dialect, text string) {
			c.count("texts:" + dialect)
			unit, perr := cparse(text)
			if perr != nil {
				report(dialect, "emitted text unreadable: "+perr.Error(), text)
				return
			}
			c.line("redecl-cases.txt", fmt.Sprintf("(redecl %s (unit %s))", dialect, unit))
			c.line("redecl-src.txt", q(src)+" "+q(text))
			for _, f := range funcsOf(sparse(unit)) {
				for _, p := range f.kids[4].kids {
					if p.list && p.head() == "param" && len(p.kids) >= 4 && p.kids[3].atom == "" {
						report(dialect, "function "+f.kids[3].atom+" has a parameter without a name", text)
						return
					}
				}
			}
			switch dialect {
			case "msl":
				// input side: the stage_in struct <ep>Input; output side: <ep>Output
				// (the whole text: fragment inputs are the only `user(locN)` of a fragment shader, vertex inputs the only
				// `attribute(N)` and vertex outputs the only `user(locN)` of a vertex shader — whatever the structs are called)
				in, out := text, text
				_ = ep
				reIn := reMslIn
				if stage == "vertex" {
					reIn = reMslAttr // vertex inputs are [[attribute(N)]]
				}
				if got := locSet(reIn, in); fmt.Sprint(got) != fmt.Sprint(inLocs) {
					report(dialect, fmt.Sprintf("input locations %v, WGSL declares %v", got, inLocs), text)
				}
				if stage == "vertex" {
					if got := locSet(reMslIn, out); fmt.Sprint(got) != fmt.Sprint(outLocs) {
						report(dialect, fmt.Sprintf("output locations %v, WGSL declares %v", got, outLocs), text)
					}
				}
			case "glsl":
				want := inLocs
				if got := locSet(reGlslIn, text); fmt.Sprint(got) != fmt.Sprint(want) {
					report(dialect, fmt.Sprintf("input locations %v, WGSL declares %v", got, want), text)
				}
				if got := locSet(reGlslOut, text); fmt.Sprint(got) != fmt.Sprint(outLocs) {
					report(dialect, fmt.Sprintf("output locations %v, WGSL declares %v", got, outLocs), text)
				}
			case "hlsl":
				all := map[int]bool{}
				for _, l := range inLocs {
					all[l] = true
				}
				if stage == "vertex" {
					for _, l := range outLocs {
						all[l] = true
					}
				}
				var want []int
				for l := range all {
					want = append(want, l)
				}
				sort.Ints(want)
				if got := locSet(reHlslLoc, text); fmt.Sprint(got) != fmt.Sprint(want) {
					report(dialect, fmt.Sprintf("LOC semantics %v, WGSL declares %v", got, want), text)
				}
			}
		}
		for _, d := range []string{"hlsl", "msl", "glsl"} {
			var text string
			r := guard(d, func() error {
				var err error
				switch d {
				case "hlsl":
					text, _, err = hlsl.Compile(mod, hlsl.DefaultOptions())
				case "msl":
					text, _, err = msl.Compile(mod, msl.DefaultOptions())
				default:
					text, _, err = glsl.Compile(mod, glsl.Options{LangVersion: glsl.Version450, EntryPoint: ep})
				}
				return err
			})
			if r.err != "" {
				c.count("backend-error:" + d)
				c.line("backend-errors.txt", q(d+": "+oneLine(r.err))+" "+q(src))
				continue
			}
			check(d, text)
		}
		c.count("modules")
		c.count("stage:" + stage)
	}
}

func init() { commands["c17iface"] = cmdC17Iface }


// compute builtins: every non-empty subset of the five compute-stage builtin inputs, as bare arguments; each must reach the
// text as its own target-language builtin — HLSL: SV_GroupThreadID / SV_GroupIndex / SV_DispatchThreadID / SV_GroupID, and
// num_workgroups (for which HLSL has no system value) through the special-constants buffer; MSL: thread_position_in_threadgroup /
// thread_index_in_threadgroup / thread_position_in_grid / threadgroup_position_in_grid / threadgroups_per_grid; GLSL:
// gl_LocalInvocationID / gl_LocalInvocationIndex / gl_GlobalInvocationID / gl_WorkGroupID / gl_NumWorkGroups.
// c17WorkgroupSizeOverride: `@workgroup_size(WG, 2)` with `override WG: u32 = 4u;` — the workgroup size is part of the
// stage interface (SPIR-V LocalSize, HLSL numthreads, GLSL local_size_x); after override resolution (default value, or a
// supplied pipeline constant) it must be that value.
func c17WorkgroupSizeOverride(c *ctx) {
	reSpvLS := regexp.MustCompile(`numthreads\((\d+), (\d+), (\d+)\)`)
	reGl := regexp.MustCompile(`local_size_x = (\d+), local_size_y = (\d+), local_size_z = (\d+)`)
	for _, tc := range []struct {
		supplied bool
		val      uint32
	}{{false, 4}, {true, 7}} {
		src := "override WG: u32 = 4u;\n@group(0) @binding(0) var<storage, read_write> o: array<u32>;\n@compute @workgroup_size(WG, 2)\nfn cs() {\n  o[0] = WG;\n}\n"
		src = strings.ReplaceAll(src, "\\n", "\n")
		mod, res := frontEnd(src)
		if mod == nil {
			c.line("violations.txt", q("front end: @workgroup_size with an override-expression rejected: "+fmt.Sprint(res))+" "+q(src)+" "+q(""))
			c.count("violations")
			continue
		}
		consts := ir.PipelineConstants{}
		if tc.supplied {
			consts["WG"] = float64(tc.val)
		}
		clone := ir.CloneModuleForOverrides(mod)
		if r := guard("ProcessOverrides", func() error { return ir.ProcessOverrides(clone, consts) }); r.err != "" {
			c.line("violations.txt", q("ProcessOverrides: "+r.err)+" "+q(src)+" "+q(""))
			c.count("violations")
			continue
		}
		want := fmt.Sprintf("%d 2 1", tc.val)
		report := func(dialect, got, text string) {
			c.count("texts:" + dialect)
			if got != want {
				c.line("violations.txt", q(fmt.Sprintf("%s: workgroup size %s for @workgroup_size(WG, 2) with WG = %d (supplied=%v)", dialect, got, tc.val, tc.supplied))+" "+q(src)+" "+q(text))
				c.count("violations")
			}
		}
		if len(clone.EntryPoints) > 0 {
			wg := clone.EntryPoints[0].Workgroup
			report("ir", fmt.Sprintf("%d %d %d", wg[0], wg[1], wg[2]), "")
		}
		var ht, gt string
		if r := guard("hlsl", func() error { t, _, e := hlsl.Compile(clone, hlsl.DefaultOptions()); ht = t; return e }); r.err == "" {
			if m := reSpvLS.FindStringSubmatch(ht); m != nil {
				report("hlsl", m[1]+" "+m[2]+" "+m[3], ht)
			}
		}
		if r := guard("glsl", func() error {
			t, _, e := glsl.Compile(clone, glsl.Options{LangVersion: glsl.Version450, EntryPoint: "cs"})
			gt = t
			return e
		}); r.err == "" {
			if m := reGl.FindStringSubmatch(gt); m != nil {
				report("glsl", m[1]+" "+m[2]+" "+m[3], gt)
			}
		}
	}
}

func c17ComputeBuiltins(c *ctx) {
	type bi struct{ wgsl, ty, hlsl, msl, glsl string }
	all := []bi{
		{"local_invocation_id", "vec3<u32>", "SV_GroupThreadID", "thread_position_in_threadgroup", "gl_LocalInvocationID"},
		{"local_invocation_index", "u32", "SV_GroupIndex", "thread_index_in_threadgroup", "gl_LocalInvocationIndex"},
		{"global_invocation_id", "vec3<u32>", "SV_DispatchThreadID", "thread_position_in_grid", "gl_GlobalInvocationID"},
		{"workgroup_id", "vec3<u32>", "SV_GroupID", "threadgroup_position_in_grid", "gl_WorkGroupID"},
		{"num_workgroups", "vec3<u32>", "", "threadgroups_per_grid", "gl_NumWorkGroups"},
	}
	for mask := 1; mask < 32; mask++ {
		var params, uses []string
		var sel []bi
		for k, b := range all {
			if mask&(1<<k) == 0 {
				continue
			}
			sel = append(sel, b)
			params = append(params, fmt.Sprintf("@builtin(%s) b%d: %s", b.wgsl, k, b.ty))
			if b.ty == "u32" {
				uses = append(uses, fmt.Sprintf("b%d", k))
			} else {
				uses = append(uses, fmt.Sprintf("b%d.x + b%d.z", k, k))
			}
		}
		src := "@group(0) @binding(0) var<storage, read_write> o: array<u32>;\n@compute @workgroup_size(2, 1, 1)\nfn cs(" + strings.Join(params, ", ") +
			") {\n  o[0] = " + strings.Join(uses, " + ") + ";\n}\n"
		src = strings.ReplaceAll(src, "\\n", "\n")
		mod, res := frontEnd(src)
		if mod == nil {
			c.count("frontend-rejected")
			c.line("rejected.txt", q(src)+" "+q(fmt.Sprint(res)))
			continue
		}
		report := func(dialect, what, text string) {
			c.line("violations.txt", q(dialect+": "+what)+" "+q(src)+" "+q(text))
			c.count("violations")
		}
		for _, d := range []string{"hlsl", "msl", "glsl"} {
			var text string
			r := guard(d, func() error {
				var err error
				switch d {
				case "hlsl":
					text, _, err = hlsl.Compile(mod, hlsl.DefaultOptions())
				case "msl":
					text, _, err = msl.Compile(mod, msl.DefaultOptions())
				default:
					text, _, err = glsl.Compile(mod, glsl.Options{LangVersion: glsl.Version450, EntryPoint: "cs"})
				}
				return err
			})
			c.count("texts:" + d)
			if r.err != "" {
				// refusing num_workgroups without the special-constants buffer is an honest answer for HLSL
				if d == "hlsl" && mask&16 != 0 {
					c.count("hlsl-num-workgroups-refused")
					continue
				}
				c.line("backend-errors.txt", q(d+": "+oneLine(r.err))+" "+q(src))
				continue
			}
			if _, perr := cparse(text); perr != nil {
				report(d, "emitted text unreadable: "+perr.Error(), text)
				continue
			}
			for _, b := range sel {
				want := map[string]string{"hlsl": b.hlsl, "msl": b.msl, "glsl": b.glsl}[d]
				if want == "" {
					// HLSL num_workgroups: no system value may stand in for it
					if n := strings.Count(text, "SV_GroupID"); n > 0 && mask&8 == 0 {
						report(d, "@builtin(num_workgroups) is read from SV_GroupID (the workgroup id)", text)
					} else if mask&8 != 0 && n > 1 {
						report(d, "@builtin(num_workgroups) and @builtin(workgroup_id) are both read from SV_GroupID", text)
					}
					continue
				}
				if !strings.Contains(text, want) {
					report(d, fmt.Sprintf("@builtin(%s): `%s` does not occur in the text", b.wgsl, want), text)
				}
			}
		}
		c.count("compute-builtin-modules")
	}
}


// GLSL has combined samplers only: every (texture, sampler) pair the WGSL samples with must become its own combined
// uniform and appear in TranslationInfo.TextureMappings with exactly these two bindings — whether the pair is formed
// directly in the entry point, inside a helper that names the globals, or by passing texture and sampler as arguments.
func c17SamplerPairs(c *ctx) {
	decl := "@group(0) @binding(0) var t1: texture_2d<f32>;\n@group(0) @binding(1) var s1: sampler;\n@group(0) @binding(2) var t2: texture_2d<f32>;\n@group(0) @binding(3) var s2: sampler;\n"
	helpers := "fn viaGlobals(uv: vec2<f32>) -> vec4<f32> { return textureSample(t2, s2, uv); }\n" +
		"fn viaArgs(t: texture_2d<f32>, s: sampler, uv: vec2<f32>) -> vec4<f32> { return textureSample(t, s, uv); }\n"
	type probe struct {
		name, body string
		pairs      [][2]int // (texture binding, sampler binding)
	}
	probes := []probe{
		{"direct", "textureSample(t1, s1, uv)", [][2]int{{0, 1}}},
		{"direct-two-samplers", "textureSample(t1, s1, uv) + textureSample(t1, s2, uv)", [][2]int{{0, 1}, {0, 3}}},
		{"helper-globals", "viaGlobals(uv)", [][2]int{{2, 3}}},
		{"helper-arguments", "viaArgs(t1, s1, uv)", [][2]int{{0, 1}}},
		{"helper-arguments-crossed", "textureSample(t1, s1, uv) + viaArgs(t1, s2, uv)", [][2]int{{0, 1}, {0, 3}}},
		{"helper-arguments-two-calls", "viaArgs(t1, s1, uv) + viaArgs(t2, s2, uv)", [][2]int{{0, 1}, {2, 3}}},
	}
	for _, p := range probes {
		src := decl + helpers + "@fragment fn fs(@location(0) uv: vec2<f32>) -> @location(0) vec4<f32> {\n  return " + p.body + ";\n}\n"
		mod, res := frontEnd(src)
		if mod == nil {
			c.count("frontend-rejected")
			c.line("rejected.txt", q(src)+" "+q(fmt.Sprint(res)))
			continue
		}
		var text string
		var got []string
		r := guard("glsl", func() error {
			t, info, err := glsl.Compile(mod, glsl.Options{LangVersion: glsl.Version450, EntryPoint: "fs"})
			text = t
			if err == nil {
				for _, m := range info.TextureMappings {
					sb := -1
					if m.SamplerBinding != nil {
						sb = int(m.SamplerBinding.Binding)
					}
					got = append(got, fmt.Sprintf("%d+%d", m.TextureBinding.Binding, sb))
				}
			}
			return err
		})
		c.count("texts:glsl")
		if r.err != "" {
			c.line("backend-errors.txt", q("glsl: "+oneLine(r.err))+" "+q(src))
			continue
		}
		var want []string
		for _, pr := range p.pairs {
			want = append(want, fmt.Sprintf("%d+%d", pr[0], pr[1]))
		}
		sort.Strings(got)
		sort.Strings(want)
		if strings.Join(got, ",") != strings.Join(want, ",") {
			c.line("violations.txt", q(fmt.Sprintf("glsl: texture+sampler pairs of probe %s: reflection lists %v, the WGSL samples with %v", p.name, got, want))+" "+q(src)+" "+q(text))
			c.count("violations")
		}
		c.count("sampler-pair-probes")
	}
}
