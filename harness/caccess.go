package main

// caccess — access-shape probes for C03/C04/C05 (in-range indices) and C15 (hostile indices).
// For every container shape (array, vector, matrix, nested array, array member of a struct) x address
// space (function, private) x access kind (load, store, compound assignment, through a pointer
// argument) a small program fills the container with distinguishable run-time values, performs ONE
// dynamically indexed access with an index taken from the input buffer, and dumps the loaded value and
// the whole container to the output buffer.  The expected output is computed here from the WGSL rules
// (in-range: the element; out of range under Restrict: the clamped element; under ReadZeroSkipWrite:
// zero / no write) — an oracle independent of naga.  The emitted text is run by the Lean interpreter.

import (
	"fmt"
	"math"
	"strings"

	"github.com/gogpu/naga/hlsl"
	"github.com/gogpu/naga/msl"
)

type accShape struct {
	name     string
	decl     string // WGSL type of the container
	n        int    // number of directly indexable elements
	inner    int    // components per element (1 = scalar element)
	elem     string // "u32" | "i32" | "f32"
	pre      string // extra declarations (struct)
	path     string // access path prefix after the variable name (e.g. ".a")
	init     func() string
	total    int  // number of scalar leaves in the container
	innerArr bool // the elements are arrays (not vectors): only scalar-leaf access kinds apply
}

func leafExpr(elem string, k int) string {
	switch elem {
	case "u32":
		return fmt.Sprintf("((inp[%du] & 255u) + %du)", k, 1000*(k+1))
	case "i32":
		return fmt.Sprintf("bitcast<i32>((inp[%du] & 255u) + %du)", k, 1000*(k+1))
	}
	return fmt.Sprintf("f32((inp[%du] & 15u) + %du)", k, 16*(k+1))
}

func leafVal(elem string, k int, inp []uint32) uint32 {
	switch elem {
	case "u32", "i32":
		return (inp[k] & 255) + uint32(1000*(k+1))
	}
	return math.Float32bits(float32((inp[k] & 15) + uint32(16*(k+1))))
}

func accShapes() []accShape {
	var out []accShape
	vecOf := func(elem string, n int, base int) string {
		ps := make([]string, n)
		for i := range ps {
			ps[i] = leafExpr(elem, base+i)
		}
		return fmt.Sprintf("vec%d<%s>(%s)", n, elem, strings.Join(ps, ", "))
	}
	for _, n := range []int{2, 3, 5} {
		n := n
		for _, e := range []string{"u32", "i32"} {
			e := e
			out = append(out, accShape{name: fmt.Sprintf("arr%d_%s", n, e), decl: fmt.Sprintf("array<%s, %d>", e, n), n: n, inner: 1, elem: e, total: n,
				init: func() string {
					ps := make([]string, n)
					for i := range ps {
						ps[i] = leafExpr(e, i)
					}
					return fmt.Sprintf("array<%s, %d>(%s)", e, n, strings.Join(ps, ", "))
				}})
		}
	}
	for _, n := range []int{2, 3, 4} {
		n := n
		for _, e := range []string{"u32", "f32"} {
			e := e
			out = append(out, accShape{name: fmt.Sprintf("vec%d_%s", n, e), decl: fmt.Sprintf("vec%d<%s>", n, e), n: n, inner: 1, elem: e, total: n,
				init: func() string { return vecOf(e, n, 0) }})
		}
	}
	for c := 2; c <= 4; c++ {
		for r := 2; r <= 4; r++ {
			c, r := c, r
			out = append(out, accShape{name: fmt.Sprintf("mat%dx%d", c, r), decl: fmt.Sprintf("mat%dx%d<f32>", c, r), n: c, inner: r, elem: "f32", total: c * r,
				init: func() string {
					cols := make([]string, c)
					for i := range cols {
						cols[i] = vecOf("f32", r, i*r)
					}
					return fmt.Sprintf("mat%dx%d<f32>(%s)", c, r, strings.Join(cols, ", "))
				}})
		}
	}
	out = append(out, accShape{name: "arr3_vec3u", decl: "array<vec3<u32>, 3>", n: 3, inner: 3, elem: "u32", total: 9,
		init: func() string {
			return fmt.Sprintf("array<vec3<u32>, 3>(%s, %s, %s)", vecOf("u32", 3, 0), vecOf("u32", 3, 3), vecOf("u32", 3, 6))
		}})
	out = append(out, accShape{name: "arr4_arr8u", decl: "array<array<u32, 8>, 4>", n: 4, inner: 8, elem: "u32", total: 32, innerArr: true,
		init: func() string {
			rows := make([]string, 4)
			for r := range rows {
				ps := make([]string, 8)
				for j := range ps {
					ps[j] = fmt.Sprintf("((inp[%du] & 255u) + %du)", (r*8+j)%16, 1000*(r*8+j+1))
				}
				rows[r] = "array<u32, 8>(" + strings.Join(ps, ", ") + ")"
			}
			return "array<array<u32, 8>, 4>(" + strings.Join(rows, ", ") + ")"
		}})
	out = append(out, accShape{name: "struct_arr3", decl: "SA", n: 3, inner: 1, elem: "u32", total: 3, path: ".a",
		pre: "struct SA { b: u32, a: array<u32, 3>, c: u32 }\n",
		init: func() string {
			return fmt.Sprintf("SA(7u, array<u32, 3>(%s, %s, %s), 9u)", leafExpr("u32", 0), leafExpr("u32", 1), leafExpr("u32", 2))
		}})
	return out
}

type accKind struct {
	name string
}

var accKinds = []string{"load", "store", "opassign", "ptrarg", "loadcomp", "loaddiag", "storediag"}
var accSpaces = []string{"function", "private"}

// executed sweep only (cmdCAccess): the container as a `let` value (loads only), and a load written directly as the value
// of a store into the output buffer (`outp[0] = c[i];` — the stored value sits inside the store's own guard)
var accKindsExec = append(append([]string{}, accKinds...), "loaddirect")
var accSpacesExec = append(append([]string{}, accSpaces...), "value")

func toWordExpr(elem, e string) string {
	if elem == "u32" {
		return e
	}
	return "bitcast<u32>(" + e + ")"
}

// accProgram builds the WGSL text; idxSigned: index is i32.
// accLitIdx != nil: accProgram indexes with a `let` bound to this literal instead of a value read from the input buffer.
var accLitIdx *uint32

func accProgram(s accShape, space, kind string, idxSigned bool) (string, bool) {
	var b strings.Builder
	b.WriteString("@group(0) @binding(0) var<storage, read> inp: array<u32>;\n@group(0) @binding(1) var<storage, read_write> outp: array<u32>;\n")
	b.WriteString(s.pre)
	elemTy := s.elem
	if s.inner > 1 {
		elemTy = fmt.Sprintf("vec%d<%s>", s.inner, s.elem)
	}
	if (kind == "loadcomp" || kind == "loaddiag" || kind == "storediag") && s.inner == 1 {
		return "", false
	}
	if s.innerArr && (kind == "load" || kind == "store" || kind == "opassign" || kind == "ptrarg") {
		return "", false
	}
	if kind == "ptrarg" {
		if strings.HasPrefix(s.name, "vec") {
			return "", false // WGSL: no pointer to a vector component
		}
		fmt.Fprintf(&b, "fn bump(p: ptr<%s, %s>) {\n  (*p) = (*p) + %s;\n}\n", space, elemTy, accDelta(s))
	}
	if space == "value" && !(kind == "load" || kind == "loadcomp" || kind == "loaddiag" || kind == "loaddirect") {
		return "", false // a `let` value can only be read
	}
	if kind == "loaddirect" && s.inner != 1 {
		return "", false
	}
	if space == "private" {
		fmt.Fprintf(&b, "var<private> c: %s;\n", s.decl)
	}
	b.WriteString("@compute @workgroup_size(1)\nfn main() {\n")
	switch space {
	case "function":
		fmt.Fprintf(&b, "  var c: %s = %s;\n", s.decl, s.init())
	case "value":
		fmt.Fprintf(&b, "  let c: %s = %s;\n", s.decl, s.init())
	default:
		fmt.Fprintf(&b, "  c = %s;\n", s.init())
	}
	idx := "inp[31u]"
	if idxSigned {
		idx = "bitcast<i32>(inp[31u])"
	}
	if accLitIdx != nil {
		// the index is a `let` bound to a literal: a run-time value for WGSL (out of range is not a shader-creation error),
		// but a constant for the writers
		if idxSigned {
			fmt.Fprintf(&b, "  let ixl = %di;\n", int32(*accLitIdx))
		} else {
			fmt.Fprintf(&b, "  let ixl = %du;\n", *accLitIdx)
		}
		idx = "ixl"
	}
	place := fmt.Sprintf("c%s[%s]", s.path, idx)
	switch kind {
	case "loaddirect":
		fmt.Fprintf(&b, "  outp[0u] = %s;\n", toWordExpr(s.elem, place))
	case "load":
		fmt.Fprintf(&b, "  let x = %s;\n", place)
		for j := 0; j < s.inner; j++ {
			comp := "x"
			if s.inner > 1 {
				comp = fmt.Sprintf("x[%d]", j)
			}
			fmt.Fprintf(&b, "  outp[%du] = %s;\n", j, toWordExpr(s.elem, comp))
		}
	case "loadcomp":
		// second subscript dynamic too
		sub := "(inp[30u] % " + fmt.Sprint(s.inner) + "u)"
		fmt.Fprintf(&b, "  let x = %s[%s];\n  outp[0u] = %s;\n", place, sub, toWordExpr(s.elem, "x"))
	case "loaddiag":
		// the SAME index value in both subscripts
		fmt.Fprintf(&b, "  let i = %s;\n  let x = c%s[i][i];\n  outp[0u] = %s;\n", idx, s.path, toWordExpr(s.elem, "x"))
	case "storediag":
		fmt.Fprintf(&b, "  let i = %s;\n  c%s[i][i] = %s;\n", idx, s.path, map[string]string{"u32": "424242u", "i32": "424242i", "f32": "8192.0"}[s.elem])
	case "store":
		fmt.Fprintf(&b, "  %s = %s;\n", place, accNewValue(s))
	case "opassign":
		fmt.Fprintf(&b, "  %s += %s;\n", place, accDelta(s))
	case "ptrarg":
		fmt.Fprintf(&b, "  bump(&%s);\n", place)
	}
	// dump the container
	k := 8
	for i := 0; i < s.n; i++ {
		for j := 0; j < s.inner; j++ {
			leaf := fmt.Sprintf("c%s[%d]", s.path, i)
			if s.inner > 1 {
				leaf += fmt.Sprintf("[%d]", j)
			}
			fmt.Fprintf(&b, "  outp[%du] = %s;\n", k, toWordExpr(s.elem, leaf))
			k++
		}
	}
	b.WriteString("}\n")
	return b.String(), true
}

func accDelta(s accShape) string {
	one := map[string]string{"u32": "100000u", "i32": "100000i", "f32": "4096.0"}[s.elem]
	if s.inner > 1 {
		return fmt.Sprintf("vec%d<%s>(%s)", s.inner, s.elem, one)
	}
	return one
}

func accNewValue(s accShape) string {
	one := map[string]string{"u32": "424242u", "i32": "424242i", "f32": "8192.0"}[s.elem]
	if s.inner > 1 {
		return fmt.Sprintf("vec%d<%s>(%s)", s.inner, s.elem, one)
	}
	return one
}

func addWord(elem string, old uint32, isStore bool) uint32 {
	switch elem {
	case "u32", "i32":
		if isStore {
			return 424242
		}
		return old + 100000
	}
	if isStore {
		return math.Float32bits(8192.0)
	}
	return math.Float32bits(math.Float32frombits(old) + 4096.0)
}

// accExpected: the 16 output words WGSL prescribes; policy "exact" (index in range), "restrict", "rzsw".
// Returns nil when WGSL leaves the result open (out-of-range index without a policy).
func accExpected(s accShape, kind string, inp, outp []uint32, idx uint32, signed bool, policy string) []uint32 {
	exp := append([]uint32(nil), outp...)
	leaves := make([]uint32, s.total)
	for k := range leaves {
		if s.innerArr {
			leaves[k] = (inp[k%16] & 255) + uint32(1000*(k+1))
		} else {
			leaves[k] = leafVal(s.elem, k, inp)
		}
	}
	inRange := idx < uint32(s.n)
	if kind == "loaddiag" || kind == "storediag" {
		e1, e2 := int(idx), int(idx)
		sk := false
		if idx >= uint32(s.n) || idx >= uint32(s.inner) {
			switch policy {
			case "restrict":
				if e1 > s.n-1 {
					e1 = s.n - 1
				}
				if e2 > s.inner-1 {
					e2 = s.inner - 1
				}
			case "rzsw":
				sk = true
			default:
				return nil
			}
		}
		if kind == "loaddiag" {
			if sk {
				exp[0] = 0
			} else {
				exp[0] = leaves[e1*s.inner+e2]
			}
		} else if !sk {
			leaves[e1*s.inner+e2] = addWord(s.elem, 0, true)
		}
		for k := range leaves {
			exp[8+k] = leaves[k]
		}
		return exp
	}
	eff := int(idx)
	skip := false
	if !inRange {
		switch policy {
		case "restrict":
			eff = s.n - 1
		case "rzsw":
			skip = true
		default:
			return nil
		}
	}
	switch kind {
	case "load", "loaddirect":
		for j := 0; j < s.inner; j++ {
			if skip {
				exp[j] = 0
			} else {
				exp[j] = leaves[eff*s.inner+j]
			}
		}
	case "loadcomp":
		sub := int(inp[30] % uint32(s.inner))
		if skip {
			exp[0] = 0
		} else {
			exp[0] = leaves[eff*s.inner+sub]
		}
	case "store", "opassign", "ptrarg":
		if !skip {
			for j := 0; j < s.inner; j++ {
				leaves[eff*s.inner+j] = addWord(s.elem, leaves[eff*s.inner+j], kind == "store")
			}
		}
	}
	for k := range leaves {
		exp[8+k] = leaves[k]
	}
	return exp
}

func cmdCAccess(c *ctx) {
	dialect := "hlsl"
	if len(c.args) > 0 {
		dialect = c.args[0]
	}
	hostile := len(c.args) > 1 && c.args[1] == "hostile"
	type optSet struct {
		tag, policy string
	}
	var sets []optSet
	switch dialect {
	case "hlsl":
		sets = []optSet{{"sm=1 restrict=true loopbound=true zeroinit=true", "restrict"}, {"sm=2 restrict=false loopbound=false zeroinit=true", ""}}
	case "msl":
		sets = []optSet{{"v2.1 index=restrict buffer=restrict loopbound=true zeroinit=true", "restrict"},
			{"v2.1 index=rzsw buffer=rzsw loopbound=true zeroinit=true", "rzsw"}, {"v3.0 index=unchecked buffer=unchecked loopbound=false zeroinit=true", ""}}
	case "glsl":
		sets = []optSet{{"v430 es=false flags=0 highp=false", ""}, {"v310 es=true flags=0 highp=false", ""}}
	}
	hostileIdx := []uint32{0xffffffff, 0x80000000, 0x7fffffff, 5, 6, 16, 17, 1000, 0x10000, 0xfffffffe}
	for _, s := range accShapes() {
		for _, space := range accSpacesExec {
			for _, kind := range accKindsExec {
				for _, signed := range []bool{false, true} {
					// variant 0: index read from the input buffer; variants 1…: the index is a literal bound by `let` (hostile runs only)
					var litIdxs []uint32
					if hostile {
						litIdxs = []uint32{uint32(s.n), 0xffffffff, 0x80000000}
						if signed {
							litIdxs = []uint32{uint32(s.n), 0xffffffff, 0x80000000, 0x7fffffff}
						}
					}
					for variant := 0; variant <= len(litIdxs); variant++ {
						accLitIdx = nil
						if variant > 0 {
							v := litIdxs[variant-1]
							accLitIdx = &v
						}
						src, ok := accProgram(s, space, kind, signed)
						lit := accLitIdx
						accLitIdx = nil
						if !ok {
							continue
						}
						mod, res := frontEnd(src)
						if mod == nil {
							c.count("rejected")
							c.line("rejected.txt", q(fmt.Sprint(res))+" "+q(src))
							continue
						}
						for _, os := range sets {
							if hostile && os.policy == "" {
								continue // no protective option selected: nothing is promised
							}
							text, _, cerr := emitCFixed(dialect, mod, os.tag)
							if cerr != "" {
								c.count("backend-error")
								c.line("backend-errors.txt", q(cerr)+" "+q(src))
								continue
							}
							unit, nfix, perr := cparseN(text)
							if perr != nil {
								c.count("cparse-error")
								c.line("cparse-errors.txt", q(perr.Error())+" "+q(text))
								continue
							}
							if nfix > 0 {
								c.count("prefix-array-declarator")
								if c.stats["prefix-array-declarator"] == 1 {
									c.line("prefix-array.txt", q(text))
								}
							}
							var idxs []uint32
							if lit != nil {
								idxs = []uint32{*lit}
							} else if hostile {
								idxs = append(idxs, uint32(s.n), uint32(s.n)+1, uint32(s.inner), uint32(s.inner)+1)
								if s.inner > 1 && s.n != s.inner {
									lo, hi := s.n, s.inner
									if lo > hi {
										lo, hi = hi, lo
									}
									idxs = append(idxs, uint32(lo+(hi-lo)/2))
								}
								for k := 0; k < 3; k++ {
									idxs = append(idxs, hostileIdx[c.rng.Intn(len(hostileIdx))])
								}
								idxs = append(idxs, c.rng.Uint32())
							} else {
								lim := s.n
								if (kind == "loaddiag" || kind == "storediag") && s.inner < lim {
									lim = s.inner
								}
								for i := 0; i < lim; i++ {
									idxs = append(idxs, uint32(i))
								}
							}
							for _, idx := range idxs {
								if signed && !hostile && idx > 0x7fffffff {
									continue
								}
								inp, outp := c.inputWords(32), c.inputWords(48)
								inp[31] = idx
								exp := accExpected(s, kind, inp, outp, idx, signed, os.policy)
								if exp == nil {
									continue
								}
								c.line("cases.txt", fmt.Sprintf("(crun %s (unit %s) (inputs %s %s))", dialect, unit, wordsSexp(0, inp), wordsSexp(1, outp)))
								parts := make([]string, len(exp))
								for i, w := range exp {
									parts[i] = fmt.Sprint(w)
								}
								c.line("expected.txt", "["+strings.Join(parts, ", ")+"]")
								c.line("src.txt", q(src))
								c.line("text.txt", q(text))
								c.line("tags.txt", fmt.Sprintf("access:%s:%s:%s:%s idx=%d signed=%v policy=%s literal=%v | %s", s.name, space, kind, map[bool]string{true: "hostile", false: "inrange"}[hostile], idx, signed, os.policy, lit != nil, os.tag))
								c.count("access-cases")
								if lit != nil {
									c.count("literal-index-cases")
								}
								c.count("shape:" + s.name)
								c.count("kind:" + kind)
							}
						}
					}
				}
			}
		}
	}
	_ = hlsl.ShaderModel5_1
	_ = msl.Version2_1
}

func init() { commands["caccess"] = cmdCAccess }

// ---- guard-shape extraction (R-tie of C15) ----------------------------------------------------
// For every access probe compiled under a protective option set, find each subscript in the entry
// point whose index is not a literal and classify it: guarded by `min(uint(i), K)` (Restrict),
// guarded by an enclosing `uint(i) < N ? … : …` / `if (uint(i) < N)` (ReadZeroSkipWrite), or
// unguarded.  Rows: dialect policy expectedLength K|N guardKind(0 restrict, 1 rzsw, 2 none).

func isLiteralIndex(n *snode) bool {
	for n.head() == "paren" {
		n = n.kids[1]
	}
	return n.head() == "int" || n.head() == "uint"
}

func stripParen(n *snode) *snode {
	for n != nil && n.head() == "paren" {
		n = n.kids[1]
	}
	return n
}

// restrictGuard: (call min (call uint|unsigned X) (uint K)) -> K
func restrictGuard(n *snode) (int, bool) {
	n = stripParen(n)
	if n.head() == "call" && (n.kids[1].atom == "min" || n.kids[1].atom == "metal::min") && len(n.kids) == 4 {
		a, b := stripParen(n.kids[2]), stripParen(n.kids[3])
		if a.head() == "call" && (a.kids[1].atom == "uint" || a.kids[1].atom == "unsigned") && (b.head() == "uint" || b.head() == "int") {
			var k int
			fmt.Sscan(b.kids[1].atom, &k)
			return k, true
		}
	}
	return 0, false
}

// rzswCond: (bin < (call uint X) (int N)) -> N, text of X
func rzswCond(n *snode) (int, string, bool) {
	n = stripParen(n)
	if n.head() == "bin" && n.kids[1].atom == "<" {
		a, b := stripParen(n.kids[2]), stripParen(n.kids[3])
		if a.head() == "call" && (a.kids[1].atom == "uint" || a.kids[1].atom == "unsigned") && len(a.kids) == 3 && (b.head() == "uint" || b.head() == "int") {
			var k int
			fmt.Sscan(b.kids[1].atom, &k)
			return k, sprint(a.kids[2]), true
		}
	}
	// conjunction of two conditions (nested subscripts): handled by the caller walking both sides
	return 0, "", false
}

func sprint(n *snode) string {
	if n == nil {
		return ""
	}
	if !n.list {
		return n.atom
	}
	ps := make([]string, len(n.kids))
	for i, k := range n.kids {
		ps[i] = sprint(k)
	}
	return "(" + strings.Join(ps, " ") + ")"
}

type guardRow struct {
	expLen, k, kind int
}

// walkGuards collects a row for every non-literal subscript below n.  conds: the rzsw conditions
// (index text -> N) that enclose the current node.
func walkGuards(n *snode, conds map[string][]int, lenOf func(base *snode) int, out *[]guardRow) {
	if n == nil || !n.list {
		return
	}
	switch n.head() {
	case "tern", "if":
		c := n.kids[1]
		add := map[string][]int{}
		var collect func(x *snode)
		collect = func(x *snode) {
			x = stripParen(x)
			if x.head() == "bin" && x.kids[1].atom == "&&" {
				collect(x.kids[2])
				collect(x.kids[3])
				return
			}
			if k, ix, ok := rzswCond(x); ok {
				add[ix] = append(add[ix], k)
			}
		}
		collect(c)
		inner := map[string][]int{}
		for k, v := range conds {
			inner[k] = append([]int{}, v...)
		}
		for k, v := range add {
			inner[k] = append(inner[k], v...)
		}
		walkGuards(c, conds, lenOf, out)
		walkGuards(n.kids[2], inner, lenOf, out)
		for _, k := range n.kids[3:] {
			walkGuards(k, conds, lenOf, out)
		}
		return
	case "idx":
		base, ix := n.kids[1], n.kids[2]
		if !isLiteralIndex(ix) {
			el := lenOf(base)
			if el > 0 {
				if k, ok := restrictGuard(ix); ok {
					*out = append(*out, guardRow{el, k, 0})
				} else if ns, ok := conds[sprint(stripParen(ix))]; ok && len(ns) > 0 {
					// the same index expression may be compared against several lengths (x[i][i]): take the comparison
					// with this object's length when there is one
					nn := ns[0]
					for _, v := range ns {
						if v == el {
							nn = v
						}
					}
					*out = append(*out, guardRow{el, nn, 1})
				} else {
					*out = append(*out, guardRow{el, 0, 2})
				}
			}
		}
	}
	for i, k := range n.kids {
		if i == 0 && !k.list {
			continue
		}
		walkGuards(k, conds, lenOf, out)
	}
}

func cmdCGuards(c *ctx) {
	type optSet struct {
		dialect, tag string
		policy       int // 0 restrict, 1 rzsw
	}
	sets := []optSet{{"hlsl", "sm=1 restrict=true loopbound=true zeroinit=true", 0}, {"msl", "v2.1 index=restrict buffer=restrict loopbound=true zeroinit=true", 0},
		{"msl", "v2.1 index=rzsw buffer=rzsw loopbound=true zeroinit=true", 1}}
	for _, os := range sets {
		for _, s := range accShapes() {
			for _, space := range accSpaces {
				for _, kind := range accKinds {
					if kind == "ptrarg" && os.policy == 1 {
						continue // recorded finding C04-msl-rzsw-pointer-argument (ill-formed text)
					}
					src, ok := accProgram(s, space, kind, false)
					if !ok {
						continue
					}
					mod, _ := frontEnd(src)
					if mod == nil {
						continue
					}
					text, _, cerr := emitCFixed(os.dialect, mod, os.tag)
					if cerr != "" {
						c.count("backend-error")
						continue
					}
					unit, perr := cparse(text)
					if perr != nil {
						c.count("cparse-error")
						continue
					}
					u := sparse(unit)
					fs := funcsOf(u)
					if len(fs) == 0 {
						continue
					}
					entry := fs[len(fs)-1]
					lenOf := func(base *snode) int {
						base = stripParen(base)
						for base.head() == "mem" && base.kids[2].atom == "inner" { // MSL array wrapper struct
							base = stripParen(base.kids[1])
						}
						// a subscript of a subscript addresses the inner vector; buffers (inp/outp) are not containers under test
						switch base.head() {
						case "idx":
							return s.inner
						case "id":
							nm := base.kids[1].atom
							if strings.HasPrefix(nm, "inp") || strings.HasPrefix(nm, "outp") {
								return 0
							}
							if strings.HasPrefix(nm, "_e") || nm == "x" {
								return s.inner // a baked column / element value
							}
							return s.n
						case "mem":
							return s.n
						}
						return s.n
					}
					var rows []guardRow
					walkGuards(entry.kids[5], map[string][]int{}, lenOf, &rows)
					for _, r := range rows {
						c.line("guards.txt", fmt.Sprintf("%d %d %d %d %d -- %s %s %s", cDialectCodes[os.dialect], os.policy, r.expLen, r.k, r.kind, s.name, space, kind))
						c.count(fmt.Sprintf("guard-kind-%d", r.kind))
					}
					if len(rows) == 0 {
						c.line("guards.txt", fmt.Sprintf("%d %d %d %d %d -- %s %s %s (no dynamic subscript found)", cDialectCodes[os.dialect], os.policy, s.n, 0, 3, s.name, space, kind))
						c.count("guard-kind-3")
					}
				}
			}
		}
	}
}

func init() { commands["cguards"] = cmdCGuards }
