package main

// wgen: type-directed generator of valid, deterministic WGSL compute modules.  Every program is
// produced both as source text and as an S-expression of the generator's own AST, so that the Lean
// reference evaluator never depends on naga's parser.
//
// Determinism rules the generator obeys (so that WGSL defines the result):
//   * every loop is bounded by a counter that the body cannot modify;
//   * dynamic indices are reduced modulo the length (`i % n`) before use;
//   * constant expressions are kept free of overflow, division by zero and oversized shifts
//     (at least one operand of a risky operator is a run-time value, or literals are small);
//   * float arithmetic is restricted to + - * on small integral values (exact in f32), float->int
//     conversions to in-range values.

import (
	"regexp"
	"strconv"
	"fmt"
	"strings"
)

// ---------- types ----------

type wty struct {
	k    string // i32 u32 f32 bool vec arr struct
	n    int    // vec size / array len
	elem *wty   // vec/arr element
	name string // struct name
	flds []wfield
}
type wfield struct {
	name string
	ty   *wty
}

var (
	tI32  = &wty{k: "i32"}
	tU32  = &wty{k: "u32"}
	tF32  = &wty{k: "f32"}
	tBool = &wty{k: "bool"}
)

func tVec(n int, e *wty) *wty { return &wty{k: "vec", n: n, elem: e} }
func tArr(n int, e *wty) *wty { return &wty{k: "arr", n: n, elem: e} }

func (t *wty) String() string {
	switch t.k {
	case "vec":
		return fmt.Sprintf("vec%d<%s>", t.n, t.elem)
	case "arr":
		return fmt.Sprintf("array<%s, %d>", t.elem, t.n)
	case "struct":
		return t.name
	}
	return t.k
}
func (t *wty) sexp() string {
	switch t.k {
	case "vec":
		return fmt.Sprintf("(vec %d %s)", t.n, t.elem.sexp())
	case "arr":
		return fmt.Sprintf("(arr %d %s)", t.n, t.elem.sexp())
	case "struct":
		return fmt.Sprintf("(struct %s)", t.name)
	}
	return t.k
}
func (t *wty) eq(u *wty) bool {
	if t.k != u.k {
		return false
	}
	switch t.k {
	case "vec", "arr":
		return t.n == u.n && t.elem.eq(u.elem)
	case "struct":
		return t.name == u.name
	}
	return true
}
func (t *wty) isInt() bool     { return t.k == "i32" || t.k == "u32" }
func (t *wty) isScalar() bool  { return t.k == "i32" || t.k == "u32" || t.k == "f32" || t.k == "bool" }
func (t *wty) scalarOf() *wty  { if t.k == "vec" { return t.elem }; return t }
func (t *wty) isNumeric() bool { s := t.scalarOf(); return s.k == "i32" || s.k == "u32" || s.k == "f32" }
func (t *wty) withScalar(s *wty) *wty {
	if t.k == "vec" {
		return tVec(t.n, s)
	}
	return s
}

// ---------- expressions ----------

type wexpr struct {
	k     string // lit var bin un call callfn cast bitcast cons swz idx field arrlen
	ty    *wty
	op    string
	name  string
	args  []*wexpr
	bits  uint32 // literal payload
	alias string // alternative spelling used when rendering with wrender.unshadow (entity-level renaming)
	konst bool   // constant expression (foldable at shader-creation time)
	small bool   // constant known to be a small non-negative value (<= 8)
	aval  int64  // abstract-int literal value (k == "aint")
}

// isConst: is e a WGSL constant expression (foldable at shader-creation time)?
func (e *wexpr) isConst() bool {
	switch e.k {
	case "lit":
		return true
	case "var":
		return e.konst
	case "callfn", "arrlen", "addr", "deref":
		return false
	}
	if len(e.args) == 0 {
		return e.konst
	}
	for _, a := range e.args {
		if !a.isConst() {
			return false
		}
	}
	return true
}

// wLitSalt != 0: literals are spelled in one of the other forms the WGSL grammar allows (hex integers; `3.f`, `3f`, `3e0f`,
// `3.e0f`, `30e-1f`, `.3e1f`, `0x3p0f`, `0x3.p0f`, `0x1.8p1f` …), chosen by value and salt so that every rendering of a
// module spells a given literal the same way.  The type suffix is kept: the spelling never changes the literal's type.
var wLitSalt uint32

// wNoHexFloat: the hexadecimal float spellings fall back to the plain decimal one (C08: is a rejection caused by them?).
var wNoHexFloat bool

// wHexFloats: the hexadecimal float spellings are allowed at all (C08 only).
var wHexFloats bool

func litSpell(bits uint32, n int) int {
	if wLitSalt == 0 {
		return 0
	}
	return int(((bits+1)*2654435761 ^ wLitSalt) >> 7 % uint32(n))
}

func litStr(t *wty, bits uint32) string {
	if wLitSalt != 0 {
		switch t.k {
		case "i32":
			if v := int32(bits); v >= 0 && !wBareInts {
				return fmt.Sprintf([]string{"%di", "0x%xi", "0X%Xi", "%di"}[litSpell(bits, 4)], v)
			}
		case "u32":
			return fmt.Sprintf([]string{"%du", "0x%xu", "0X%Xu", "%du"}[litSpell(bits, 4)], bits)
		case "f32":
			if v := int32(bits); v >= 0 {
				forms := []string{"%d.0f", "%d.f", "%d.0e+0f", "%de0f", "%d.e0f", "%d0e-1f", "0x%xp0f", "0x%x.p0f", "0x%x.0p+0f", "%d.0E0f", "0X%XP0f"}
				if v > 0 {
					forms = append(forms, "%df", ".%de1f") // `0f` is fine but `.0e1f` too; keep zero to the common forms
				} else {
					forms = append(forms, "0f", ".0f")
				}
				f := forms[litSpell(bits, len(forms))]
				if (wNoHexFloat || !wHexFloats || wLitSalt&6 != 0) && (strings.HasPrefix(f, "0x") || strings.HasPrefix(f, "0X")) {
					f = "%d.0f" // hexadecimal floats (a recorded finding: not lexed) only in one salted module in four
				}
				if strings.Contains(f, "%") {
					return fmt.Sprintf(f, v)
				}
				return f
			}
		}
	}
	switch t.k {
	case "i32":
		v := int32(bits)
		if v == -2147483648 {
			return "(-2147483647i - 1i)"
		}
		if wBareInts && v > -2147483648 {
			// abstract-int spelling (C14: override initialisers `= (33 - 2) * 26` next to `(33i - 2i) * 26i`)
			if v < 0 {
				return fmt.Sprintf("(%d)", v)
			}
			return fmt.Sprintf("%d", v)
		}
		if v < 0 {
			return fmt.Sprintf("(%di)", v)
		}
		return fmt.Sprintf("%di", v)
	case "u32":
		return fmt.Sprintf("%du", bits)
	case "f32":
		return fmt.Sprintf("%d.0f", int32(bits)) // payload is the integral value, not the bit pattern
	case "bool":
		if bits != 0 {
			return "true"
		}
		return "false"
	}
	return "?"
}

// renderOpts: meaning-neutral rendering variations (C19).
type renderOpts struct {
	rng           interface{ Float64() float64 }
	parenProb     float64
	trailingComma bool
	unshadow      bool // spell shadowing locals with their fresh alias instead of the shadowed name
}

var wrender *renderOpts

// wBareInts: i32 literals are written without the `i` suffix (set only while C14 renders override initialisers).
var wBareInts bool

func joinArgs(as []string) string {
	s := strings.Join(as, ", ")
	if wrender != nil && wrender.trailingComma && len(as) > 0 && wrender.rng.Float64() < 0.5 {
		s += ","
	}
	return s
}

func (e *wexpr) wgsl() string {
	s := e.wgsl0()
	if wrender != nil && e.k != "addr" && wrender.rng.Float64() < wrender.parenProb {
		return "(" + s + ")"
	}
	return s
}

func (e *wexpr) wgsl0() string {
	switch e.k {
	case "lit":
		return litStr(e.ty, e.bits)
	case "var":
		if wrender != nil && wrender.unshadow && e.alias != "" {
			return e.alias
		}
		return e.name
	case "bin":
		return "(" + e.args[0].wgsl() + " " + e.op + " " + e.args[1].wgsl() + ")"
	case "un":
		return "(" + e.op + e.args[0].wgsl() + ")"
	case "call", "callfn":
		as := make([]string, len(e.args))
		for i, a := range e.args {
			as[i] = a.wgsl()
		}
		return e.name + "(" + joinArgs(as) + ")"
	case "cast":
		return e.ty.String() + "(" + e.args[0].wgsl() + ")"
	case "bitcast":
		return "bitcast<" + e.ty.String() + ">(" + e.args[0].wgsl() + ")"
	case "aidx": // array<T, N>(args...)[name] (C06)
		as := make([]string, len(e.args))
		for i, a := range e.args {
			as[i] = a.wgsl()
		}
		return fmt.Sprintf("array<%s, %d>(%s)[%s]", e.ty.String(), len(e.args), joinArgs(as), e.name)
	case "cons":
		as := make([]string, len(e.args))
		for i, a := range e.args {
			as[i] = a.wgsl()
		}
		return e.ty.String() + "(" + joinArgs(as) + ")"
	case "swz":
		return e.args[0].wgsl() + "." + e.name
	case "idx":
		return e.args[0].wgsl() + "[" + e.args[1].wgsl() + "]"
	case "field":
		return e.args[0].wgsl() + "." + e.name
	case "arrlen":
		return "arrayLength(&" + e.name + ")"
	case "conc": // abstract-int expression in a concrete context (C06): spelled bare
		return e.args[0].wgsl()
	case "aint":
		return fmt.Sprint(e.aval)
	case "fmix": // mixed abstract-int / abstract-float remainder (C06): aval % bits, one side spelled as a float
		a, b := fmt.Sprint(e.aval), fmt.Sprint(int32(e.bits))
		switch e.op {
		case "0":
			b += ".0"
		case "1":
			a += ".0"
		default:
			a, b = a+".0", b+".0"
		}
		return "f32(" + a + " % " + b + ")"
	case "frem": // f32 remainder of two half-integral constants (C06): (aval/2) % (bits/2)
		half := func(v int64) string { return strconv.FormatFloat(float64(v)/2, 'f', 1, 64) }
		a, b := half(e.aval), half(int64(int32(e.bits)))
		switch e.op {
		case "1":
			a = "vec2<f32>(" + a + ", 1.0).x"
		case "2":
			b = "vec2<f32>(1.0, " + b + ").y"
		}
		return "(" + a + " % " + b + ")"
	case "aneg":
		return "(-" + e.args[0].wgsl() + ")"
	case "abin":
		return "(" + e.args[0].wgsl() + " " + e.op + " " + e.args[1].wgsl() + ")"
	case "addr":
		return "(&" + e.args[0].wgsl() + ")"
	case "deref":
		return "(*" + e.args[0].wgsl() + ")"
	}
	return "?"
}

func (e *wexpr) sexp() string {
	var b strings.Builder
	switch e.k {
	case "lit":
		fmt.Fprintf(&b, "(lit %s %d)", e.ty.sexp(), e.bits)
	case "var":
		fmt.Fprintf(&b, "(var %s %s)", e.name, e.ty.sexp())
	case "arrlen":
		fmt.Fprintf(&b, "(arrlen %s)", e.name)
	case "conc":
		fmt.Fprintf(&b, "(conc %s %s)", e.ty.sexp(), e.args[0].sexp())
	case "aint":
		fmt.Fprintf(&b, "(aint %d)", e.aval)
	case "fmix":
		fmt.Fprintf(&b, "(fmix %d %d)", e.aval, int32(e.bits))
	case "frem":
		fmt.Fprintf(&b, "(frem %d %d)", e.aval, int32(e.bits))
	case "aneg":
		fmt.Fprintf(&b, "(aneg %s)", e.args[0].sexp())
	case "abin":
		fmt.Fprintf(&b, "(abin %s %s %s)", q(e.op), e.args[0].sexp(), e.args[1].sexp())
	case "swz", "field":
		fmt.Fprintf(&b, "(%s %s %s %s)", e.k, e.ty.sexp(), e.args[0].sexp(), e.name)
	default:
		fmt.Fprintf(&b, "(%s %s %s", e.k, e.ty.sexp(), q(e.op+e.name))
		for _, a := range e.args {
			b.WriteByte(' ')
			b.WriteString(a.sexp())
		}
		b.WriteString(")")
	}
	return b.String()
}

// ---------- statements ----------

type wstmt struct {
	alias string // see wexpr.alias
	k     string // let var const assign opassign incr decr if switch loop for while break continue return callstmt block
	name  string
	ty    *wty
	op    string
	e     *wexpr   // init / rhs / cond / selector / value
	lhs   *wexpr   // assignment target
	body  []*wstmt // then / loop body / block
	els   []*wstmt // else / continuing
	cases []wcase
	init  *wstmt // for
	upd   *wstmt // for
	brk   *wexpr // break if
	infer bool   // let/const rendered without type annotation (C06)
}
type wcase struct {
	sels  []uint32
	deflt bool
	body  []*wstmt
}

func indent(n int) string { return strings.Repeat("  ", n) }

func block(ss []*wstmt, ind int) string {
	var b strings.Builder
	b.WriteString("{\n")
	for _, s := range ss {
		b.WriteString(s.wgsl(ind + 1))
	}
	b.WriteString(indent(ind) + "}")
	return b.String()
}

func (s *wstmt) inline() string { // statement without indentation / terminator (for `for` headers)
	switch s.k {
	case "var":
		name := s.name
		if wrender != nil && wrender.unshadow && s.alias != "" {
			name = s.alias
		}
		if s.e != nil {
			return fmt.Sprintf("var %s: %s = %s", name, s.ty, s.e.wgsl())
		}
		return fmt.Sprintf("var %s: %s", name, s.ty)
	case "assign":
		return s.lhs.wgsl() + " = " + s.e.wgsl()
	case "opassign":
		return s.lhs.wgsl() + " " + s.op + "= " + s.e.wgsl()
	case "incr":
		return s.lhs.wgsl() + "++"
	case "decr":
		return s.lhs.wgsl() + "--"
	}
	return "?"
}

func (s *wstmt) wgsl(ind int) string {
	p := indent(ind)
	switch s.k {
	case "let", "const":
		if s.infer && s.e.k == "addr" && (wrender == nil || wrender.rng.Float64() < 0.7) {
			// pointer binding in its plain spelling `let p = &place;` (the parenthesised one is a neutral variant)
			return fmt.Sprintf("%s%s %s = &%s;\n", p, s.k, s.name, s.e.args[0].wgsl())
		}
		if s.infer {
			return fmt.Sprintf("%s%s %s = %s;\n", p, s.k, s.name, s.e.wgsl())
		}
		return fmt.Sprintf("%s%s %s: %s = %s;\n", p, s.k, s.name, s.ty, s.e.wgsl())
	case "raw": // verbatim statement text (C11 rule-breaking edits)
		return p + s.name + "\n"
	case "var", "assign", "opassign", "incr", "decr":
		return p + s.inline() + ";\n"
	case "if":
		out := p + "if " + s.e.wgsl() + " " + block(s.body, ind)
		if s.els != nil {
			out += " else " + block(s.els, ind)
		}
		return out + "\n"
	case "switch":
		var b strings.Builder
		b.WriteString(p + "switch " + s.e.wgsl() + " {\n")
		for _, c := range s.cases {
			b.WriteString(indent(ind + 1))
			if c.deflt && len(c.sels) == 0 {
				b.WriteString("default: ")
			} else {
				b.WriteString("case ")
				for i, v := range c.sels {
					if i > 0 {
						b.WriteString(", ")
					}
					b.WriteString(litStr(s.e.ty, v))
				}
				if c.deflt {
					b.WriteString(", default")
				}
				b.WriteString(": ")
			}
			b.WriteString(block(c.body, ind+1) + "\n")
		}
		b.WriteString(p + "}\n")
		return b.String()
	case "loop":
		var b strings.Builder
		b.WriteString(p + "loop {\n")
		for _, x := range s.body {
			b.WriteString(x.wgsl(ind + 1))
		}
		if s.els != nil || s.brk != nil {
			b.WriteString(indent(ind+1) + "continuing {\n")
			for _, x := range s.els {
				b.WriteString(x.wgsl(ind + 2))
			}
			if s.brk != nil {
				b.WriteString(indent(ind+2) + "break if " + s.brk.wgsl() + ";\n")
			}
			b.WriteString(indent(ind+1) + "}\n")
		}
		b.WriteString(p + "}\n")
		return b.String()
	case "for":
		return p + "for (" + s.init.inline() + "; " + s.e.wgsl() + "; " + s.upd.inline() + ") " + block(s.body, ind) + "\n"
	case "while":
		return p + "while " + s.e.wgsl() + " " + block(s.body, ind) + "\n"
	case "break":
		return p + "break;\n"
	case "continue":
		return p + "continue;\n"
	case "return":
		if s.e != nil {
			return p + "return " + s.e.wgsl() + ";\n"
		}
		return p + "return;\n"
	case "callstmt":
		return p + s.e.wgsl() + ";\n"
	case "block":
		return p + block(s.body, ind) + "\n"
	}
	return p + "?;\n"
}

func stmtsSexp(ss []*wstmt) string {
	var b strings.Builder
	b.WriteString("(")
	for i, s := range ss {
		if i > 0 {
			b.WriteByte(' ')
		}
		b.WriteString(s.sexp())
	}
	b.WriteString(")")
	return b.String()
}

func optE(e *wexpr) string {
	if e == nil {
		return "nil"
	}
	return e.sexp()
}

func (s *wstmt) sexp() string {
	switch s.k {
	case "let", "const":
		return fmt.Sprintf("(%s %s %s %s)", s.k, s.name, s.ty.sexp(), s.e.sexp())
	case "var":
		return fmt.Sprintf("(var %s %s %s)", s.name, s.ty.sexp(), optE(s.e))
	case "assign":
		return fmt.Sprintf("(assign %s %s)", s.lhs.sexp(), s.e.sexp())
	case "opassign":
		return fmt.Sprintf("(opassign %s %s %s)", q(s.op), s.lhs.sexp(), s.e.sexp())
	case "incr", "decr":
		return fmt.Sprintf("(%s %s)", s.k, s.lhs.sexp())
	case "if":
		els := "nil"
		if s.els != nil {
			els = stmtsSexp(s.els)
		}
		return fmt.Sprintf("(if %s %s %s)", s.e.sexp(), stmtsSexp(s.body), els)
	case "switch":
		var b strings.Builder
		fmt.Fprintf(&b, "(switch %s", s.e.sexp())
		for _, c := range s.cases {
			b.WriteString(" (case (")
			for i, v := range c.sels {
				if i > 0 {
					b.WriteByte(' ')
				}
				fmt.Fprint(&b, v)
			}
			fmt.Fprintf(&b, ") %v %s)", c.deflt, stmtsSexp(c.body))
		}
		b.WriteString(")")
		return b.String()
	case "loop":
		els := "nil"
		if s.els != nil {
			els = stmtsSexp(s.els)
		}
		return fmt.Sprintf("(loop %s %s %s)", stmtsSexp(s.body), els, optE(s.brk))
	case "for":
		return fmt.Sprintf("(for %s %s %s %s)", s.init.sexp(), s.e.sexp(), s.upd.sexp(), stmtsSexp(s.body))
	case "while":
		return fmt.Sprintf("(while %s %s)", s.e.sexp(), stmtsSexp(s.body))
	case "break", "continue":
		return "(" + s.k + ")"
	case "return":
		return fmt.Sprintf("(return %s)", optE(s.e))
	case "callstmt":
		return fmt.Sprintf("(callstmt %s)", s.e.sexp())
	case "block":
		return fmt.Sprintf("(block %s)", stmtsSexp(s.body))
	}
	return "(?)"
}

// ---------- module ----------

type wfunc struct {
	name   string
	params []wfield
	ptrs   []bool // param i is ptr<function, T>
	ret    *wty
	body   []*wstmt
}
type wglobal struct {
	name    string
	space   string // storage_rw storage_r uniform private workgroup
	ty      *wty   // element type for runtime arrays when rt
	rt      bool   // array<ty> (runtime-sized)
	binding int
	init    *wexpr
}
type wmodule struct {
	shadowConsts []wfield // dedicated module constants for shadowing tests
	lateDecls bool // render module-scope consts / private globals after the functions (forward references)
	structs []*wty
	globals []*wglobal
	consts  []*wstmt
	funcs   []*wfunc
	entry   *wfunc
	wg      int
}

func (g *wglobal) decl() string {
	t := g.ty.String()
	if g.rt {
		t = "array<" + t + ">"
	}
	switch g.space {
	case "storage_rw":
		return fmt.Sprintf("@group(0) @binding(%d) var<storage, read_write> %s: %s;\n", g.binding, g.name, t)
	case "storage_r":
		return fmt.Sprintf("@group(0) @binding(%d) var<storage, read> %s: %s;\n", g.binding, g.name, t)
	case "uniform":
		return fmt.Sprintf("@group(0) @binding(%d) var<uniform> %s: %s;\n", g.binding, g.name, t)
	case "private":
		if g.init != nil {
			return fmt.Sprintf("var<private> %s: %s = %s;\n", g.name, t, g.init.wgsl())
		}
		return fmt.Sprintf("var<private> %s: %s;\n", g.name, t)
	default:
		return fmt.Sprintf("var<workgroup> %s: %s;\n", g.name, t)
	}
}

func (f *wfunc) wgsl(entry bool, wg int) string {
	var b strings.Builder
	if entry {
		fmt.Fprintf(&b, "@compute @workgroup_size(%d)\n", wg)
	}
	b.WriteString("fn " + f.name + "(")
	for i, p := range f.params {
		if i > 0 {
			b.WriteString(", ")
		}
		if f.ptrs[i] {
			fmt.Fprintf(&b, "%s: ptr<function, %s>", p.name, p.ty)
		} else {
			fmt.Fprintf(&b, "%s: %s", p.name, p.ty)
		}
	}
	b.WriteString(")")
	if f.ret != nil {
		b.WriteString(" -> " + f.ret.String())
	}
	b.WriteString(" " + block(f.body, 0) + "\n")
	return b.String()
}

func (m *wmodule) wgsl() string {
	var b strings.Builder
	for _, s := range m.structs {
		fmt.Fprintf(&b, "struct %s {\n", s.name)
		for _, f := range s.flds {
			fmt.Fprintf(&b, "  %s: %s,\n", f.name, f.ty)
		}
		b.WriteString("}\n")
	}
	for _, g := range m.globals {
		if !(m.lateDecls && g.space == "private") {
			b.WriteString(g.decl())
		}
	}
	if !m.lateDecls {
		for _, c := range m.consts {
			b.WriteString(c.wgsl(0))
		}
	}
	for _, f := range m.funcs {
		b.WriteString(f.wgsl(false, 0))
	}
	b.WriteString(m.entry.wgsl(true, m.wg))
	if m.lateDecls {
		for _, c := range m.consts {
			b.WriteString(c.wgsl(0))
		}
		for _, g := range m.globals {
			if g.space == "private" {
				b.WriteString(g.decl())
			}
		}
	}
	return b.String()
}

func (f *wfunc) sexp() string {
	var b strings.Builder
	fmt.Fprintf(&b, "(fn %s (", f.name)
	for i, p := range f.params {
		if i > 0 {
			b.WriteByte(' ')
		}
		fmt.Fprintf(&b, "(%s %s %v)", p.name, p.ty.sexp(), f.ptrs[i])
	}
	ret := "nil"
	if f.ret != nil {
		ret = f.ret.sexp()
	}
	fmt.Fprintf(&b, ") %s %s)", ret, stmtsSexp(f.body))
	return b.String()
}

func (m *wmodule) sexp() string {
	var b strings.Builder
	b.WriteString("(module (structs")
	for _, s := range m.structs {
		fmt.Fprintf(&b, " (%s", s.name)
		for _, f := range s.flds {
			fmt.Fprintf(&b, " (%s %s)", f.name, f.ty.sexp())
		}
		b.WriteString(")")
	}
	b.WriteString(") (globals")
	for _, g := range m.globals {
		fmt.Fprintf(&b, " (%s %s %s %v %d %s)", g.name, g.space, g.ty.sexp(), g.rt, g.binding, optE(g.init))
	}
	b.WriteString(") (consts")
	for _, c := range m.consts {
		b.WriteString(" " + c.sexp())
	}
	b.WriteString(") (funcs")
	for _, f := range m.funcs {
		b.WriteString(" " + f.sexp())
	}
	fmt.Fprintf(&b, ") (entry %d %s))", m.wg, m.entry.sexp())
	return b.String()
}

// ---------- generator ----------

type wscopeVar struct {
	name    string
	ty      *wty
	mutable bool
	konst   bool
	small   bool
	ptr     bool // ptr<function, ty> parameter: use (*name)
	locked  bool // loop counter: never assigned by generated statements
	global  bool // module-scope variable (not in the function address space)
}

type wgenOpts struct {
	maxStmts   int
	maxDepth   int
	floats     bool
	helpers    int
	structs    bool
	switchOnly bool
	rawShift   bool // leave run-time shift amounts unmasked (known finding: SPIR-V/GLSL emit unmasked shifts)
	clz        bool // use countLeadingZeros/countTrailingZeros (known finding: SPIR-V emits FindUMsb/FindILsb unadjusted)
	privInit   bool // give private globals initialisers (known finding: SPIR-V drops InitExpr initialisers)
	swBreak    bool // explicit `break` at the end of switch clauses (known finding: SPIR-V OpUnreachable merge)
	absU       bool // abs() on unsigned operands (known finding: SPIR-V uses SAbs)
	forceShadow bool // always begin main with a shadowing block and declare module constants after the functions
	shadowUse  bool // also use a shadowed module name outside the shadowing block (known finding: DependencyOrder)
	vecInit    bool // allow vector-typed private-global initialisers (known finding: literal kinds)
	negInit    bool // allow private-global initialisers that are not plain literals (e.g. -5i)
	callInSwitch bool // put calls to value-returning helpers into switch clauses (C13: inliner rebuilds such switches)
	flatRet    bool // early `return` only outside loops and switches (C13: the inliner mishandles nested returns)
	noSDot     bool // no dot() on signed integer vectors (C03/C04 finding: overflow of the plain int products)
	noAbsI     bool // no abs() on signed integers (C03 finding: HLSL abs(INT_MIN))
	noDynPtr   bool // no pointer argument to a dynamically indexed array element (C04 finding: RZSW ternary as a reference)
	safeDiv    bool // integer / and % only with strictly positive divisors and non-negative dividends (C05: GLSL-undefined otherwise)
	noFlbU     bool // no firstLeadingBit on unsigned operands (C04 finding: MSL treats all-ones like the signed case)
	constInit  bool // private globals initialised by a named module constant or a negated literal (C04/C05 findings)
	noValIdx   bool // no dynamic index into a by-value vector (let / parameter) (C04 finding: MSL RZSW ternary without parentheses)
	fwdNest    bool // a continue inside a regular switch nested in a single-clause switch inside a loop (continue forwarding)
	noPreLet   bool // never test `break if` on a let bound before the counter's increment
	preLetBoost bool // make that form the usual one (knob programs)
	ptrLet     bool // `let p = &place;` bindings, read and written through `*p`
	scalarSel  bool // select() on vectors with a scalar condition, also as the operand of a swizzle / index (C04 finding: MSL)
	contLet    bool // a `let` of a loop body used in its continuing block (C03/C04/C05 finding: pasted into the continuing text)
	contLetBoost bool
	selSwzBoost bool
	multiSwz   bool // multi-component swizzles as values
	f2iRange   bool // f32 -> i32/u32 conversions of values outside the target range (C01 finding: SPIR-V converts unclamped)
	frem       bool // `%` on f32 (C01 finding: SPIR-V emits OpFMod, the floored remainder)
	bitField   bool // extractBits / insertBits with offsets and counts up to 63 (C01 finding: SPIR-V passes them on unclamped)
	pack4      bool // pack4x{I,U}8[Clamp] / unpack4x{I,U}8
	noArrRead  bool // no `a[i]` value reads of local arrays and no array-typed `let`
	froundBoost bool // knob programs: round() of run-time half-integers stored to the output
	fround     bool // round() on half-integers (C04/C05 findings: MSL round is ties-away, GLSL round leaves ties open)
	contCall   bool // a helper that is the only user of a private global, called only from a loop's continuing block / for-update
}

type wgen struct {
	c        *ctx
	o        wgenOpts
	m        *wmodule
	scopes   [][]wscopeVar
	nameN    int
	inLoop   int
	inSwitch int
	inCont   bool
	curRet   *wty
	feat     map[string]int
	funcs    []*wfunc // callable helpers defined so far
	budget   int
	outIdx   int
	nOut     int
}

func (g *wgen) f(k string) { g.feat[k]++ }

func (g *wgen) fresh(p string) string {
	g.nameN++
	return fmt.Sprintf("%s%d", p, g.nameN)
}

func (g *wgen) push()              { g.scopes = append(g.scopes, nil) }
func (g *wgen) pop()               { g.scopes = g.scopes[:len(g.scopes)-1] }
func (g *wgen) declare(v wscopeVar) { g.scopes[len(g.scopes)-1] = append(g.scopes[len(g.scopes)-1], v) }

func (g *wgen) visible(pred func(wscopeVar) bool) []wscopeVar {
	var out []wscopeVar
	for _, s := range g.scopes {
		for _, v := range s {
			if pred(v) {
				out = append(out, v)
			}
		}
	}
	return out
}

func (g *wgen) scalarTy() *wty {
	r := g.c.rng.Intn(10)
	switch {
	case r < 4:
		return tI32
	case r < 7:
		return tU32
	case r < 8 && g.o.floats:
		return tF32
	case r < 9:
		return tBool
	}
	return tI32
}

func (g *wgen) valueTy() *wty {
	if g.c.chance(0.3) {
		s := g.scalarTy()
		return tVec(2+g.c.rng.Intn(3), s)
	}
	return g.scalarTy()
}

var boundaryI = []uint32{0, 1, 2, 3, 5, 7, 31, 32, 33, 100, 255, 256, 65535, 65536, 0x7fffffff, 0x80000000, 0x80000001, 0xffffffff, 0xfffffffe, 0xffffff00}

func (g *wgen) lit(t *wty, small bool) *wexpr {
	switch t.k {
	case "i32", "u32":
		var v uint32
		if small || g.c.chance(0.5) {
			v = uint32(g.c.rng.Intn(9))
			return &wexpr{k: "lit", ty: t, bits: v, konst: true, small: true}
		}
		if g.c.chance(0.7) {
			v = boundaryI[g.c.rng.Intn(len(boundaryI))]
		} else {
			v = g.c.rng.Uint32()
		}
		return &wexpr{k: "lit", ty: t, bits: v, konst: true}
	case "f32":
		if small {
			return &wexpr{k: "lit", ty: t, bits: uint32(g.c.rng.Intn(9)), konst: true, small: true}
		}
		return &wexpr{k: "lit", ty: t, bits: uint32(int32(g.c.rng.Intn(17) - 8)), konst: true, small: true}
	case "bool":
		return &wexpr{k: "lit", ty: t, bits: uint32(g.c.rng.Intn(2)), konst: true}
	case "vec":
		args := make([]*wexpr, t.n)
		k := true
		for i := range args {
			args[i] = g.lit(t.elem, small)
			k = k && args[i].isConst()
		}
		return &wexpr{k: "cons", ty: t, args: args, konst: k}
	}
	panic("lit " + t.String())
}

// load: a run-time value of type t read from the input buffer (never a constant expression).
func (g *wgen) load(t *wty) *wexpr {
	g.f("load-input")
	idx := &wexpr{k: "lit", ty: tU32, bits: uint32(g.c.rng.Intn(16)), konst: true, small: true}
	switch t.k {
	case "u32":
		return &wexpr{k: "idx", ty: tU32, args: []*wexpr{{k: "var", ty: tArr(0, tU32), name: "inp"}, idx}}
	case "i32":
		return &wexpr{k: "bitcast", ty: tI32, args: []*wexpr{g.load(tU32)}}
	case "bool":
		return &wexpr{k: "bin", ty: tBool, op: "!=", args: []*wexpr{{k: "bin", ty: tU32, op: "&", args: []*wexpr{g.load(tU32), {k: "lit", ty: tU32, bits: 1, konst: true, small: true}}}, {k: "lit", ty: tU32, bits: 0, konst: true, small: true}}}
	case "f32":
		// small integral float: f32(i32(x & 15) - 8)
		m := &wexpr{k: "bin", ty: tU32, op: "&", args: []*wexpr{g.load(tU32), {k: "lit", ty: tU32, bits: 15, konst: true}}}
		return &wexpr{k: "cast", ty: tF32, args: []*wexpr{m}}
	case "vec":
		args := make([]*wexpr, t.n)
		for i := range args {
			args[i] = g.load(t.elem)
		}
		return &wexpr{k: "cons", ty: t, args: args}
	}
	panic("load " + t.String())
}

var swzNames = "xyzw"

// expr generates an expression of exactly type t.
func (g *wgen) expr(t *wty, depth int) *wexpr {
	if t.k == "arr" || t.k == "struct" {
		return g.aggregate(t, depth)
	}
	if depth <= 0 || g.c.chance(0.15) {
		return g.leaf(t)
	}
	r := g.c.rng.Intn(100)
	sc := t.scalarOf()
	switch {
	case r < 40:
		return g.binary(t, depth)
	case r < 50:
		return g.unary(t, depth)
	case r < 65:
		return g.builtin(t, depth)
	case r < 75:
		return g.conversion(t, depth)
	case r < 82 && t.k == "vec":
		return g.construct(t, depth)
	case r < 86 && !g.o.noArrRead:
		if e := g.elemRead(t); e != nil {
			return e
		}
		if t.isScalar() {
			return g.component(t, depth)
		}
	case r < 90 && t.isScalar():
		return g.component(t, depth)
	case r < 96 && len(g.funcs) > 0:
		if e := g.callfn(t, depth); e != nil {
			return e
		}
	}
	_ = sc
	return g.leaf(t)
}

func (g *wgen) leaf(t *wty) *wexpr {
	vs := g.visible(func(v wscopeVar) bool { return v.ty.eq(t) })
	if len(vs) > 0 && g.c.chance(0.6) {
		v := vs[g.c.rng.Intn(len(vs))]
		g.f("use-var")
		if v.ptr {
			return &wexpr{k: "deref", ty: t, args: []*wexpr{{k: "var", ty: t, name: v.name}}}
		}
		return &wexpr{k: "var", ty: t, name: v.name, konst: v.konst, small: v.small}
	}
	if g.c.chance(0.5) {
		return g.load(t)
	}
	g.f("literal")
	return g.lit(t, false)
}

func (g *wgen) aggregate(t *wty, depth int) *wexpr {
	vs := g.visible(func(v wscopeVar) bool { return v.ty.eq(t) && !v.ptr })
	if len(vs) > 0 && g.c.chance(0.5) {
		v := vs[g.c.rng.Intn(len(vs))]
		return &wexpr{k: "var", ty: t, name: v.name, konst: v.konst}
	}
	g.f("construct-" + t.k)
	var args []*wexpr
	if t.k == "arr" {
		for i := 0; i < t.n; i++ {
			args = append(args, g.expr(t.elem, depth-1))
		}
	} else {
		for _, f := range t.flds {
			args = append(args, g.expr(f.ty, depth-1))
		}
	}
	return &wexpr{k: "cons", ty: t, args: args}
}

// nonConst returns e if it is not a constant expression, otherwise a fresh run-time value.
func (g *wgen) runtime(t *wty, depth int) *wexpr {
	e := g.expr(t, depth)
	if e.isConst() {
		return g.load(t)
	}
	return e
}

func (g *wgen) binary(t *wty, depth int) *wexpr {
	sc := t.scalarOf()
	mk := func(op string, a, b *wexpr) *wexpr {
		g.f("bin" + op + ":" + a.ty.scalarOf().k + shapeOf(a.ty, b.ty))
		return &wexpr{k: "bin", ty: t, op: op, args: []*wexpr{a, b}, konst: a.isConst() && b.isConst()}
	}
	switch sc.k {
	case "bool":
		r := g.c.rng.Intn(10)
		if r < 5 {
			// comparison of numerics
			var ot *wty
			if g.o.floats && g.c.chance(0.2) {
				ot = t.withScalar(tF32)
			} else {
				ot = t.withScalar([]*wty{tI32, tU32}[g.c.rng.Intn(2)])
			}
			op := g.c.pick("==", "!=", "<", "<=", ">", ">=")
			return mk(op, g.expr(ot, depth-1), g.expr(ot, depth-1))
		}
		if r < 7 && t.isScalar() {
			op := g.c.pick("&&", "||")
			g.f("short-circuit")
			return mk(op, g.expr(t, depth-1), g.expr(t, depth-1))
		}
		if r < 9 {
			op := g.c.pick("&", "|", "==", "!=")
			return mk(op, g.expr(t, depth-1), g.expr(t, depth-1))
		}
		return g.leaf(t)
	case "f32":
		if g.o.frem && g.c.chance(0.25) {
			// float remainder: dividend a half-integer of either sign, divisor a positive half-integer (never zero)
			g.f("float-remainder")
			return mk("%", g.halves(t), g.posHalves(t))
		}
		op := g.c.pick("+", "-", "*")
		// keep magnitudes small and integral: leaves only
		return mk(op, g.leaf(t), g.leaf(t))
	}
	// integers
	op := g.c.pick("+", "-", "*", "/", "%", "&", "|", "^", "<<", ">>", "+", "-", "*")
	switch op {
	case "<<", ">>":
		st := t.withScalar(tU32)
		a := g.expr(t, depth-1)
		var b *wexpr
		if g.c.chance(0.5) {
			// literal shift amount below the bit width
			if t.k == "vec" {
				args := make([]*wexpr, t.n)
				for i := range args {
					args[i] = &wexpr{k: "lit", ty: tU32, bits: uint32(g.c.rng.Intn(32)), konst: true}
				}
				b = &wexpr{k: "cons", ty: st, args: args, konst: true}
			} else {
				b = &wexpr{k: "lit", ty: tU32, bits: uint32(g.c.rng.Intn(32)), konst: true}
			}
			if a.isConst() {
				a = g.load(t) // constant << constant may overflow at shader-creation time
			}
		} else {
			b = g.runtime(st, depth-1)
			if !g.o.rawShift {
				b = &wexpr{k: "bin", ty: st, op: "&", args: []*wexpr{b, g.splat(st, 31)}}
			} else {
				g.f("raw-shift")
			}
		}
		return mk(op, a, b)
	case "/", "%":
		a := g.expr(t, depth-1)
		b := g.runtime(t, depth-1) // run-time divisor: WGSL defines x/0 and INT_MIN/-1 at run time
		if g.o.safeDiv {
			// (a & 0x7fffffff) op ((b & 0xffff) + 1): defined in every target language
			a = &wexpr{k: "bin", ty: t, op: "&", args: []*wexpr{a, g.splat(t, 0x7fffffff)}}
			b = &wexpr{k: "bin", ty: t, op: "+", args: []*wexpr{{k: "bin", ty: t, op: "&", args: []*wexpr{b, g.splat(t, 0xffff)}}, g.splat(t, 1)}}
		}
		return mk(op, a, b)
	case "+", "-", "*":
		a := g.expr(t, depth-1)
		b := g.expr(t, depth-1)
		if a.isConst() && b.isConst() && !(a.small && b.small && op != "-") {
			b = g.load(t) // avoid shader-creation-time overflow
		}
		// vector ⊗ scalar mixing
		if t.k == "vec" && g.c.chance(0.25) {
			s := g.runtime(sc, depth-1)
			if g.c.chance(0.5) {
				return mk(op, a, s)
			}
			return mk(op, s, a)
		}
		e := mk(op, a, b)
		e.small = false
		return e
	}
	return mk(op, g.expr(t, depth-1), g.expr(t, depth-1))
}

func shapeOf(a, b *wty) string {
	sa, sb := "s", "s"
	if a.k == "vec" {
		sa = fmt.Sprint("v", a.n)
	}
	if b.k == "vec" {
		sb = fmt.Sprint("v", b.n)
	}
	return ":" + sa + sb
}

func (g *wgen) unary(t *wty, depth int) *wexpr {
	sc := t.scalarOf()
	var op string
	switch sc.k {
	case "bool":
		op = "!"
	case "i32":
		op = g.c.pick("-", "~")
	case "u32":
		op = "~"
	case "f32":
		op = "-"
	}
	a := g.expr(t, depth-1)
	if op == "-" && a.isConst() {
		a = g.load(t) // -(INT_MIN) as constant expression is an error
	}
	g.f("un" + op + ":" + sc.k)
	return &wexpr{k: "un", ty: t, op: op, args: []*wexpr{a}, konst: a.isConst()}
}

func (g *wgen) builtin(t *wty, depth int) *wexpr {
	sc := t.scalarOf()
	call := func(name string, args ...*wexpr) *wexpr {
		g.f("builtin:" + name + ":" + sc.k)
		return &wexpr{k: "call", ty: t, name: name, args: args}
	}
	switch sc.k {
	case "i32", "u32":
		if g.o.bitField && g.c.chance(0.12) {
			// offset and count anywhere in 0..63: WGSL clamps them (o = min(offset, 32), c = min(count, 32 - o))
			oc := func() *wexpr {
				return &wexpr{k: "bin", ty: tU32, op: "&", args: []*wexpr{g.load(tU32), {k: "lit", ty: tU32, bits: 63, konst: true}}}
			}
			if g.c.chance(0.6) {
				return call("extractBits", g.runtime(t, depth-1), oc(), oc())
			}
			return call("insertBits", g.runtime(t, depth-1), g.runtime(t, depth-1), oc(), oc())
		}
		if g.o.pack4 && g.c.chance(0.12) {
			// 4x8 integer packing: exact integer definitions; the writers expand them to `|` / `<<` chains
			if t.k == "u32" {
				n := g.c.pick("pack4xU8", "pack4xI8", "pack4xU8Clamp", "pack4xI8Clamp")
				at := tVec(4, tU32)
				if strings.Contains(n, "I8") {
					at = tVec(4, tI32)
				}
				return call(n, g.runtime(at, depth-1))
			}
			if t.k == "vec" && t.n == 4 {
				return call(map[string]string{"u32": "unpack4xU8", "i32": "unpack4xI8"}[sc.k], g.runtime(tU32, depth-1))
			}
		}
		switch g.c.rng.Intn(12) {
		case 0:
			if sc.k == "u32" && !g.o.absU {
				return call("countOneBits", g.runtime(t, depth-1))
			}
			if sc.k == "i32" && g.o.noAbsI {
				return call("countOneBits", g.runtime(t, depth-1))
			}
			return call("abs", g.runtime(t, depth-1))
		case 1:
			return call("min", g.expr(t, depth-1), g.runtime(t, depth-1))
		case 2:
			return call("max", g.expr(t, depth-1), g.runtime(t, depth-1))
		case 3:
			// clamp(e, low, high) with low <= high guaranteed: low = min(a,b), high = max(a,b)
			a, b := g.runtime(t, depth-2), g.runtime(t, depth-2)
			lo := &wexpr{k: "call", ty: t, name: "min", args: []*wexpr{a, b}}
			hi := &wexpr{k: "call", ty: t, name: "max", args: []*wexpr{a, b}}
			return call("clamp", g.runtime(t, depth-1), lo, hi)
		case 4:
			return call("countOneBits", g.runtime(t, depth-1))
		case 5:
			if !g.o.clz {
				return call("countOneBits", g.runtime(t, depth-1))
			}
			return call("countLeadingZeros", g.runtime(t, depth-1))
		case 6:
			if !g.o.clz {
				return call("reverseBits", g.runtime(t, depth-1))
			}
			return call("countTrailingZeros", g.runtime(t, depth-1))
		case 7:
			if sc.k == "u32" && g.o.noFlbU {
				return call("firstTrailingBit", g.runtime(t, depth-1))
			}
			return call("firstLeadingBit", g.runtime(t, depth-1))
		case 8:
			return call("firstTrailingBit", g.runtime(t, depth-1))
		case 9:
			return call("reverseBits", g.runtime(t, depth-1))
		case 10:
			if t.k == "vec" && g.o.scalarSel && g.c.chance(0.5) {
				g.f("select-scalar-cond")
				return call("select", g.expr(t, depth-1), g.expr(t, depth-1), g.runtime(tBool, depth-1))
			}
			return call("select", g.expr(t, depth-1), g.expr(t, depth-1), g.runtime(t.withScalar(tBool), depth-1))
		default:
			if t.isScalar() && !(sc.k == "i32" && g.o.noSDot) {
				n := 2 + g.c.rng.Intn(3)
				vt := tVec(n, t)
				return call("dot", g.runtime(vt, depth-1), g.runtime(vt, depth-1))
			}
			return call("reverseBits", g.runtime(t, depth-1))
		}
	case "bool":
		if t.isScalar() {
			n := 2 + g.c.rng.Intn(3)
			return call(g.c.pick("all", "any"), g.runtime(tVec(n, tBool), depth-1))
		}
		return call("select", g.expr(t, depth-1), g.expr(t, depth-1), g.runtime(t, depth-1))
	case "f32":
		if g.o.fround && g.c.chance(0.4) {
			return call("round", g.halves(t))
		}
		switch g.c.rng.Intn(6) {
		case 4, 5:
			// rounding to an integral value is exact in every target; the operand is a half-integer so that ties occur
			return call(g.c.pick("floor", "ceil", "trunc", "sign"), g.halves(t))
		case 0:
			return call("abs", g.leaf(t))
		case 1:
			return call("min", g.leaf(t), g.leaf(t))
		case 2:
			return call("max", g.leaf(t), g.leaf(t))
		default:
			return call("select", g.leaf(t), g.leaf(t), g.runtime(t.withScalar(tBool), depth-1))
		}
	}
	return g.leaf(t)
}

// halves: a run-time f32 value (or vector of them) in {-4.0, -3.5, …, 3.5}: (f32(inp[k] & 15) - 8.0) / 2.0 — every step exact.
func (g *wgen) halves(t *wty) *wexpr {
	if t.k == "vec" {
		args := make([]*wexpr, t.n)
		for i := range args {
			args[i] = g.halves(t.elem)
		}
		return &wexpr{k: "cons", ty: t, args: args}
	}
	g.f("half-integer")
	lit := func(v int32) *wexpr { return &wexpr{k: "lit", ty: tF32, bits: uint32(v), konst: true, small: true} }
	d := &wexpr{k: "bin", ty: tF32, op: "-", args: []*wexpr{g.load(tF32), lit(8)}}
	return &wexpr{k: "bin", ty: tF32, op: "/", args: []*wexpr{d, lit(2)}}
}

// posHalves: a run-time f32 value (or vector of them) in {0.5, 1.0, …, 8.0}: (f32(inp[k] & 15) + 1.0) / 2.0
func (g *wgen) posHalves(t *wty) *wexpr {
	if t.k == "vec" {
		args := make([]*wexpr, t.n)
		for i := range args {
			args[i] = g.posHalves(t.elem)
		}
		return &wexpr{k: "cons", ty: t, args: args}
	}
	lit := func(v int32) *wexpr { return &wexpr{k: "lit", ty: tF32, bits: uint32(v), konst: true, small: true} }
	d := &wexpr{k: "bin", ty: tF32, op: "+", args: []*wexpr{g.load(tF32), lit(1)}}
	return &wexpr{k: "bin", ty: tF32, op: "/", args: []*wexpr{d, lit(2)}}
}

func (g *wgen) conversion(t *wty, depth int) *wexpr {
	sc := t.scalarOf()
	switch sc.k {
	case "i32", "u32":
		other := tU32
		if sc.k == "u32" {
			other = tI32
		}
		src := t.withScalar(other)
		r := g.c.rng.Intn(10)
		if r < 4 {
			g.f("bitcast:" + other.k + "->" + sc.k)
			return &wexpr{k: "bitcast", ty: t, args: []*wexpr{g.runtime(src, depth-1)}}
		}
		if r < 7 {
			g.f("cast:" + other.k + "->" + sc.k)
			return &wexpr{k: "cast", ty: t, args: []*wexpr{g.runtime(src, depth-1)}}
		}
		if r < 9 {
			g.f("cast:bool->" + sc.k)
			return &wexpr{k: "cast", ty: t, args: []*wexpr{g.runtime(t.withScalar(tBool), depth-1)}}
		}
		if g.o.f2iRange && (g.o.floats || g.c.chance(0.5)) {
			// any magnitude up to 2^33, either sign (never NaN): f32(bitcast<i32>(inp[k])) * 4.0 — WGSL conversions saturate
			g.f("cast:f32->" + sc.k + ":any-range")
			big := func() *wexpr {
				iv := &wexpr{k: "bitcast", ty: tI32, args: []*wexpr{g.load(tU32)}}
				return &wexpr{k: "bin", ty: tF32, op: "*", args: []*wexpr{{k: "cast", ty: tF32, args: []*wexpr{iv}}, {k: "lit", ty: tF32, bits: 4, konst: true, small: true}}}
			}
			if t.k == "vec" {
				args := make([]*wexpr, t.n)
				for i := range args {
					args[i] = big()
				}
				return &wexpr{k: "cast", ty: t, args: []*wexpr{{k: "cons", ty: t.withScalar(tF32), args: args}}}
			}
			return &wexpr{k: "cast", ty: t, args: []*wexpr{big()}}
		}
		if g.o.floats {
			g.f("cast:f32->" + sc.k)
			// in-range by construction: leaves are small integral floats; u32 of a negative float clamps to 0 in WGSL
			return &wexpr{k: "cast", ty: t, args: []*wexpr{g.load(t.withScalar(tF32))}}
		}
		return g.leaf(t)
	case "f32":
		g.f("cast:int->f32")
		src := t.withScalar(tU32)
		m := &wexpr{k: "bin", ty: src, op: "&", args: []*wexpr{g.runtime(src, depth-1), g.splat(src, 15)}}
		return &wexpr{k: "cast", ty: t, args: []*wexpr{m}}
	case "bool":
		g.f("cast:int->bool")
		return &wexpr{k: "cast", ty: t, args: []*wexpr{g.runtime(t.withScalar([]*wty{tI32, tU32}[g.c.rng.Intn(2)]), depth-1)}}
	}
	return g.leaf(t)
}

func (g *wgen) splat(t *wty, v uint32) *wexpr {
	if t.k == "vec" {
		return &wexpr{k: "cons", ty: t, args: []*wexpr{{k: "lit", ty: t.elem, bits: v, konst: true, small: v <= 8}}, konst: true}
	}
	return &wexpr{k: "lit", ty: t, bits: v, konst: true, small: v <= 8}
}

func (g *wgen) construct(t *wty, depth int) *wexpr {
	if g.o.multiSwz && g.c.chance(0.3) {
		// multi-component swizzle `base.yx` of a vector of any size; the base is sometimes a scalar-condition select
		m := 2 + g.c.rng.Intn(3)
		bt := tVec(m, t.elem)
		base := g.expr(bt, depth-1)
		if g.o.scalarSel && t.elem.k != "bool" && g.c.chance(0.3) {
			g.f("swizzle-of-scalar-select")
			base = &wexpr{k: "call", ty: bt, name: "select", args: []*wexpr{g.expr(bt, depth-1), g.expr(bt, depth-1), g.runtime(tBool, depth-1)}}
		}
		name := make([]byte, t.n)
		for i := range name {
			name[i] = swzNames[g.c.rng.Intn(m)]
		}
		g.f("swizzleN")
		return &wexpr{k: "swz", ty: t, name: string(name), args: []*wexpr{base}}
	}
	r := g.c.rng.Intn(3)
	switch {
	case r == 0: // splat
		g.f("cons:splat")
		return &wexpr{k: "cons", ty: t, args: []*wexpr{g.expr(t.elem, depth-1)}}
	case r == 1 && t.n >= 3: // vecK + scalars
		g.f("cons:mixed")
		k := 2 + g.c.rng.Intn(t.n-2)
		args := []*wexpr{g.expr(tVec(k, t.elem), depth-1)}
		for i := k; i < t.n; i++ {
			args = append(args, g.expr(t.elem, depth-1))
		}
		if g.c.chance(0.5) && len(args) == 2 {
			args[0], args[1] = args[1], args[0]
		}
		return &wexpr{k: "cons", ty: t, args: args}
	default:
		g.f("cons:components")
		args := make([]*wexpr, t.n)
		for i := range args {
			args[i] = g.expr(t.elem, depth-1)
		}
		return &wexpr{k: "cons", ty: t, args: args}
	}
}

// component: scalar extracted from a vector (swizzle or dynamic index) or array element.
func (g *wgen) component(t *wty, depth int) *wexpr {
	n := 2 + g.c.rng.Intn(3)
	vt := tVec(n, t)
	base := g.expr(vt, depth-1)
	if g.o.scalarSel && t.k != "bool" && g.c.chance(0.25) {
		// a component of `select(a, b, cond)` with a scalar condition (MSL writes a bare `c ? b : a` — finding)
		g.f("component-of-scalar-select")
		base = &wexpr{k: "call", ty: vt, name: "select", args: []*wexpr{g.expr(vt, depth-1), g.expr(vt, depth-1), g.runtime(tBool, depth-1)}}
	}
	if g.c.chance(0.5) {
		g.f("swizzle1")
		return &wexpr{k: "swz", ty: t, name: string(swzNames[g.c.rng.Intn(n)]), args: []*wexpr{base}}
	}
	if g.c.chance(0.5) {
		g.f("vec-index-const")
		return &wexpr{k: "idx", ty: t, args: []*wexpr{base, {k: "lit", ty: tU32, bits: uint32(g.c.rng.Intn(n)), konst: true, small: true}}}
	}
	// dynamic index needs an addressable or value vector: bind through a `let`-free form: index of a variable
	vs := g.visible(func(v wscopeVar) bool { return v.ty.eq(vt) && !v.ptr && (v.mutable || !g.o.noValIdx) })
	if len(vs) > 0 {
		g.f("vec-index-dynamic")
		v := vs[g.c.rng.Intn(len(vs))]
		i := &wexpr{k: "bin", ty: tU32, op: "%", args: []*wexpr{g.load(tU32), {k: "lit", ty: tU32, bits: uint32(n), konst: true, small: true}}}
		return &wexpr{k: "idx", ty: t, args: []*wexpr{{k: "var", ty: vt, name: v.name}, i}}
	}
	return &wexpr{k: "swz", ty: t, name: string(swzNames[g.c.rng.Intn(n)]), args: []*wexpr{base}}
}


// ptrArg: `&x` for a mutable function-space place of type t: a whole local, an array element or a struct field.
func (g *wgen) ptrArg(t *wty, used map[string]bool) *wexpr {
	type cand struct {
		e    *wexpr
		root string
	}
	var cs []cand
	for _, v := range g.visible(func(v wscopeVar) bool { return v.mutable && !v.ptr && !v.locked && !v.global && !used[v.name] }) {
		base := &wexpr{k: "var", ty: v.ty, name: v.name}
		switch {
		case v.ty.eq(t):
			cs = append(cs, cand{base, v.name})
		case v.ty.k == "arr" && v.ty.elem.eq(t):
			var i *wexpr
			if g.c.chance(0.5) || g.o.noDynPtr {
				i = &wexpr{k: "lit", ty: tU32, bits: uint32(g.c.rng.Intn(v.ty.n)), konst: true, small: true}
			} else {
				i = &wexpr{k: "bin", ty: tU32, op: "%", args: []*wexpr{g.load(tU32), {k: "lit", ty: tU32, bits: uint32(v.ty.n), konst: true, small: true}}}
			}
			cs = append(cs, cand{&wexpr{k: "idx", ty: t, args: []*wexpr{base, i}}, v.name})
		case v.ty.k == "struct":
			for _, f := range v.ty.flds {
				if f.ty.eq(t) {
					cs = append(cs, cand{&wexpr{k: "field", ty: t, name: f.name, args: []*wexpr{base}}, v.name})
				}
			}
		}
	}
	if len(cs) == 0 {
		return nil
	}
	c := cs[g.c.rng.Intn(len(cs))]
	// prefer component places when there are any (they exercise the spill / copy-out paths)
	var comps []cand
	for _, x := range cs {
		if x.e.k != "var" {
			comps = append(comps, x)
		}
	}
	if len(comps) > 0 && g.c.chance(0.7) {
		c = comps[g.c.rng.Intn(len(comps))]
	}
	used[c.root] = true
	if c.e.k != "var" {
		g.f("ptr-arg-component")
	}
	return &wexpr{k: "addr", ty: t, args: []*wexpr{c.e}}
}

// elemRead: `a[i]` as a value for a visible array `a` (a `var`, a `let` or a by-value parameter) with element type t;
// the index is a literal or a run-time value reduced modulo the length.  Several reads of one by-value array on different
// control-flow paths are the point (SPIR-V spills such an array to a function variable).
func (g *wgen) elemRead(t *wty) *wexpr {
	vs := g.visible(func(v wscopeVar) bool { return v.ty.k == "arr" && v.ty.n > 0 && v.ty.elem.eq(t) && !v.ptr && !v.global })
	if len(vs) == 0 {
		return nil
	}
	v := vs[g.c.rng.Intn(len(vs))]
	var i *wexpr
	if g.c.chance(0.3) || (!v.mutable && g.o.noValIdx) { // noValIdx: C04 finding (MSL RZSW ternary without parentheses)
		i = &wexpr{k: "lit", ty: tU32, bits: uint32(g.c.rng.Intn(v.ty.n)), konst: true, small: true}
	} else {
		i = &wexpr{k: "bin", ty: tU32, op: "%", args: []*wexpr{g.load(tU32), {k: "lit", ty: tU32, bits: uint32(v.ty.n), konst: true, small: true}}}
	}
	if v.mutable {
		g.f("array-read-var")
	} else {
		g.f("array-read-value")
	}
	return &wexpr{k: "idx", ty: t, args: []*wexpr{{k: "var", ty: v.ty, name: v.name}, i}}
}

func (g *wgen) callfn(t *wty, depth int) *wexpr {
	var cands []*wfunc
	for _, f := range g.funcs {
		if f.ret != nil && f.ret.eq(t) {
			cands = append(cands, f)
		}
	}
	if len(cands) == 0 {
		return nil
	}
	f := cands[g.c.rng.Intn(len(cands))]
	args := make([]*wexpr, len(f.params))
	usedPtr := map[string]bool{}
	for i, p := range f.params {
		if f.ptrs[i] {
			a := g.ptrArg(p.ty, usedPtr)
			if a == nil {
				return nil
			}
			args[i] = a
		} else {
			args[i] = g.expr(p.ty, depth-1)
		}
	}
	g.f("call-helper")
	return &wexpr{k: "callfn", ty: t, name: f.name, args: args}
}

// ---------- statements ----------

func (g *wgen) lvalue() (*wexpr, *wty) {
	vs := g.visible(func(v wscopeVar) bool { return v.mutable && !v.locked })
	if len(vs) == 0 {
		return nil, nil
	}
	v := vs[g.c.rng.Intn(len(vs))]
	var base *wexpr
	if v.ptr {
		base = &wexpr{k: "deref", ty: v.ty, args: []*wexpr{{k: "var", ty: v.ty, name: v.name}}}
	} else {
		base = &wexpr{k: "var", ty: v.ty, name: v.name}
	}
	t := v.ty
	for {
		switch t.k {
		case "vec":
			if g.c.chance(0.4) {
				g.f("lvalue-component")
				if g.c.chance(0.5) {
					return &wexpr{k: "swz", ty: t.elem, name: string(swzNames[g.c.rng.Intn(t.n)]), args: []*wexpr{base}}, t.elem
				}
				i := &wexpr{k: "bin", ty: tU32, op: "%", args: []*wexpr{g.load(tU32), {k: "lit", ty: tU32, bits: uint32(t.n), konst: true, small: true}}}
				return &wexpr{k: "idx", ty: t.elem, args: []*wexpr{base, i}}, t.elem
			}
			return base, t
		case "arr":
			g.f("lvalue-array-elem")
			var i *wexpr
			if g.c.chance(0.5) {
				i = &wexpr{k: "lit", ty: tU32, bits: uint32(g.c.rng.Intn(t.n)), konst: true, small: true}
			} else {
				i = &wexpr{k: "bin", ty: tU32, op: "%", args: []*wexpr{g.load(tU32), {k: "lit", ty: tU32, bits: uint32(t.n), konst: true, small: true}}}
			}
			base = &wexpr{k: "idx", ty: t.elem, args: []*wexpr{base, i}}
			t = t.elem
		case "struct":
			g.f("lvalue-field")
			f := t.flds[g.c.rng.Intn(len(t.flds))]
			base = &wexpr{k: "field", ty: f.ty, name: f.name, args: []*wexpr{base}}
			t = f.ty
		default:
			return base, t
		}
	}
}

func (g *wgen) localTy() *wty {
	r := g.c.rng.Intn(10)
	if r < 2 {
		return tArr(2+g.c.rng.Intn(3), g.scalarTy())
	}
	if r < 4 && g.o.structs && len(g.m.structs) > 0 {
		return g.m.structs[g.c.rng.Intn(len(g.m.structs))]
	}
	return g.valueTy()
}

func (g *wgen) stmts(n, depth int) []*wstmt {
	var out []*wstmt
	for i := 0; i < n && g.budget > 0; i++ {
		s := g.stmt(depth)
		if s != nil {
			out = append(out, s)
			if s.k == "break" || s.k == "continue" || s.k == "return" {
				break // nothing after a jump in the same block
			}
		}
	}
	return out
}

// storeOut: observable effect — write a value into the output buffer at a fresh constant index.
func (g *wgen) storeOut(depth int) *wstmt {
	t := g.valueTy()
	return g.storeOutExpr(t, g.expr(t, depth))
}

// storeOutCall: store the result of a call to a value-returning helper (nil if there is none).
func (g *wgen) storeOutCall() *wstmt {
	var cands []*wfunc
	for _, f := range g.funcs {
		if f.ret != nil && (f.ret.isScalar() || f.ret.k == "vec") {
			cands = append(cands, f)
		}
	}
	if len(cands) == 0 {
		return nil
	}
	t := cands[g.c.rng.Intn(len(cands))].ret
	e := g.callfn(t, 2)
	if e == nil {
		return nil
	}
	return g.storeOutExpr(t, e)
}

func (g *wgen) storeOutExpr(t *wty, e *wexpr) *wstmt {
	var v *wexpr
	switch t.scalarOf().k {
	case "u32":
		v = e
	case "i32":
		v = &wexpr{k: "bitcast", ty: t.withScalar(tU32), args: []*wexpr{e}}
	case "f32":
		v = &wexpr{k: "bitcast", ty: t.withScalar(tU32), args: []*wexpr{e}}
	case "bool":
		v = &wexpr{k: "call", ty: t.withScalar(tU32), name: "select", args: []*wexpr{g.splat(t.withScalar(tU32), 0), g.splat(t.withScalar(tU32), 1), e}}
	}
	if t.k == "vec" {
		// fold the vector into one word: dot with distinct odd multipliers keeps every lane visible
		mul := make([]*wexpr, t.n)
		for i := range mul {
			mul[i] = &wexpr{k: "lit", ty: tU32, bits: uint32(2*i + 3), konst: true, small: true}
		}
		v = &wexpr{k: "call", ty: tU32, name: "dot", args: []*wexpr{v, {k: "cons", ty: tVec(t.n, tU32), args: mul, konst: true}}}
	}
	g.f("store-out")
	idx := g.outIdx % g.nOut
	g.outIdx++
	lhs := &wexpr{k: "idx", ty: tU32, args: []*wexpr{{k: "var", ty: tArr(0, tU32), name: "outp"}, {k: "lit", ty: tU32, bits: uint32(idx), konst: true, small: true}}}
	if g.c.chance(0.3) {
		op := g.c.pick("+", "^", "|", "*")
		g.f("compound-assign-buffer")
		return &wstmt{k: "opassign", op: op, lhs: lhs, e: v}
	}
	return &wstmt{k: "assign", lhs: lhs, e: v}
}

func (g *wgen) stmt(depth int) *wstmt {
	g.budget--
	if g.o.ptrLet && !g.inCont && g.c.chance(0.08) {
		if s := g.ptrLetStmt(); s != nil {
			return s
		}
	}
	r := g.c.rng.Intn(100)
	switch {
	case r < 18:
		return g.storeOut(3)
	case r < 20:
		// shadow a module-scope name: `var SHk: T = SHk ^ <run-time>;` — SHk is a dedicated module constant that
		// nothing else refers to (unless the shadowUse knob adds a second, unshadowed use in another block).
		if len(g.m.shadowConsts) > 0 && !g.inCont {
			k := g.m.shadowConsts[g.c.rng.Intn(len(g.m.shadowConsts))]
			outer := &wexpr{k: "var", ty: k.ty, name: k.name, konst: true, small: true}
			init := &wexpr{k: "bin", ty: k.ty, op: "^", args: []*wexpr{outer, g.load(k.ty)}}
			if g.o.shadowUse {
				init = g.load(k.ty) // the shadowing local does not mention the module-scope name
			}
			g.f("shadow-module-name")
			alias := g.fresh("unsh")
			body := []*wstmt{{k: "var", name: k.name, alias: alias, ty: k.ty, e: init}}
			// use the shadowing local once so it is live
			use := &wexpr{k: "var", ty: k.ty, name: k.name, alias: alias}
			var v *wexpr = use
			if k.ty.k == "i32" {
				v = &wexpr{k: "bitcast", ty: tU32, args: []*wexpr{use}}
			}
			idx := g.outIdx % g.nOut
			g.outIdx++
			body = append(body, &wstmt{k: "assign", lhs: &wexpr{k: "idx", ty: tU32, args: []*wexpr{{k: "var", ty: tArr(0, tU32), name: "outp"}, {k: "lit", ty: tU32, bits: uint32(idx), konst: true, small: true}}}, e: v})
			blk := &wstmt{k: "block", body: body}
			if g.o.shadowUse {
				// a use of the module-scope constant outside the shadowing block (known finding C08-deporder-shadow)
				g.f("shadow-plus-outer-use")
				var ov *wexpr = outer
				if k.ty.k == "i32" {
					ov = &wexpr{k: "bitcast", ty: tU32, args: []*wexpr{outer}}
				}
				idx2 := g.outIdx % g.nOut
				g.outIdx++
				outerUse := &wstmt{k: "assign", lhs: &wexpr{k: "idx", ty: tU32, args: []*wexpr{{k: "var", ty: tArr(0, tU32), name: "outp"}, {k: "lit", ty: tU32, bits: uint32(idx2), konst: true, small: true}}}, e: ov}
				return &wstmt{k: "block", body: []*wstmt{blk, outerUse}}
			}
			return blk
		}
		return g.storeOut(3)
	case r < 30:
		t := g.localTy()
		name := g.fresh("vv")
		var init *wexpr
		if g.c.chance(0.8) {
			init = g.expr(t, 3)
		}
		g.declare(wscopeVar{name: name, ty: t, mutable: true})
		g.f("var")
		return &wstmt{k: "var", name: name, ty: t, e: init}
	case r < 38:
		t := g.valueTy()
		if !g.o.noArrRead && g.c.chance(0.3) {
			t = tArr(2+g.c.rng.Intn(3), g.scalarTy()) // by-value array: read through elemRead
		}
		name := g.fresh("ll")
		e := g.expr(t, 3)
		g.declare(wscopeVar{name: name, ty: t})
		g.f("let")
		return &wstmt{k: "let", name: name, ty: t, e: e}
	case r < 41:
		t := g.scalarTy()
		if t.k == "f32" {
			t = tI32
		}
		name := g.fresh("kk")
		e := g.lit(t, true)
		g.declare(wscopeVar{name: name, ty: t, konst: true, small: true})
		g.f("const-local")
		return &wstmt{k: "const", name: name, ty: t, e: e}
	case r < 55:
		lhs, t := g.lvalue()
		if lhs == nil {
			return g.storeOut(2)
		}
		if t.isNumeric() && g.c.chance(0.4) {
			sc := t.scalarOf()
			if sc.isInt() {
				op := g.c.pick("+", "-", "*", "/", "%", "&", "|", "^", "<<", ">>")
				var rhs *wexpr
				if op == "<<" || op == ">>" {
					rhs = g.runtime(t.withScalar(tU32), 2)
					if !g.o.rawShift {
						rhs = &wexpr{k: "bin", ty: rhs.ty, op: "&", args: []*wexpr{rhs, g.splat(rhs.ty, 31)}}
					}
				} else {
					rhs = g.runtime(t, 2)
				}
				g.f("compound-assign:" + op)
				return &wstmt{k: "opassign", op: op, lhs: lhs, e: rhs}
			}
		}
		if t.isScalar() && t.isInt() && g.c.chance(0.15) {
			g.f("incr-decr")
			return &wstmt{k: g.c.pick("incr", "decr"), lhs: lhs}
		}
		g.f("assign")
		return &wstmt{k: "assign", lhs: lhs, e: g.expr(t, 3)}
	case r < 65 && depth > 0:
		g.f("if")
		cond := g.runtime(tBool, 2)
		g.push()
		th := g.stmts(1+g.c.rng.Intn(3), depth-1)
		g.pop()
		var el []*wstmt
		if g.c.chance(0.5) {
			g.push()
			el = g.stmts(1+g.c.rng.Intn(3), depth-1)
			g.pop()
			if el == nil {
				el = []*wstmt{}
			}
			g.f("else")
		}
		if th == nil {
			th = []*wstmt{}
		}
		return &wstmt{k: "if", e: cond, body: th, els: el}
	case r < 72 && depth > 0:
		return g.switchStmt(depth)
	case r < 84 && depth > 0:
		return g.loopStmt(depth)
	case r < 87 && g.inLoop > 0 && !g.inCont:
		// break/continue guarded so that the loop counter still advances (continue jumps to continuing/update)
		g.f("break-in-loop")
		if g.inSwitch > 0 && g.c.chance(0.5) {
			g.f("break-in-switch-in-loop")
		}
		return &wstmt{k: "if", e: g.runtime(tBool, 2), body: []*wstmt{{k: "break"}}}
	case r < 90 && g.inLoop > 0 && !g.inCont:
		g.f("continue")
		if g.inSwitch > 0 {
			g.f("continue-in-switch")
		}
		return &wstmt{k: "if", e: g.runtime(tBool, 2), body: []*wstmt{{k: "continue"}}}
	case r < 92 && g.curRet == nil && g.inLoop == 0 && !g.inCont && depth < g.o.maxDepth && !(g.o.flatRet && g.inSwitch > 0):
		g.f("early-return")
		return &wstmt{k: "if", e: g.runtime(tBool, 2), body: []*wstmt{{k: "return"}}}
	case r < 94 && g.curRet != nil && !g.inCont && !(g.o.flatRet && (g.inLoop > 0 || g.inSwitch > 0)):
		g.f("early-return-value")
		return &wstmt{k: "if", e: g.runtime(tBool, 2), body: []*wstmt{{k: "return", e: g.expr(g.curRet, 2)}}}
	case r < 95 && !g.inCont:
		if b := g.ptrCallBlock(); b != nil {
			return b
		}
		return g.storeOut(2)
	case r < 97:
		// call a helper for its side effects (pointer params / buffers)
		for _, f := range g.funcs {
			if f.ret == nil && g.c.chance(0.5) {
				if e := g.callVoid(f); e != nil {
					g.f("call-stmt")
					return &wstmt{k: "callstmt", e: e}
				}
			}
		}
		return g.storeOut(2)
	default:
		g.f("block")
		g.push()
		b := g.stmts(1+g.c.rng.Intn(3), depth-1)
		g.pop()
		if b == nil {
			b = []*wstmt{}
		}
		return &wstmt{k: "block", body: b}
	}
}


// ptrCallBlock: declare an array on the spot and pass `&arr[i]` to a helper that takes a pointer,
// then observe both the helper's result and the array element.
func (g *wgen) ptrCallBlock() *wstmt {
	var cands []*wfunc
	for _, f := range g.funcs {
		for i := range f.params {
			if f.ptrs[i] {
				cands = append(cands, f)
				break
			}
		}
	}
	if len(cands) == 0 {
		return nil
	}
	f := cands[g.c.rng.Intn(len(cands))]
	g.push()
	defer g.pop()
	var body []*wstmt
	args := make([]*wexpr, len(f.params))
	var observe []*wexpr
	for i, p := range f.params {
		if !f.ptrs[i] {
			args[i] = g.expr(p.ty, 2)
			continue
		}
		n := 2 + g.c.rng.Intn(3)
		at := tArr(n, p.ty)
		name := g.fresh("vv")
		body = append(body, &wstmt{k: "var", name: name, ty: at, e: g.aggregate(at, 2)})
		var idx *wexpr
		if g.c.chance(0.5) || g.o.noDynPtr {
			idx = &wexpr{k: "lit", ty: tU32, bits: uint32(g.c.rng.Intn(n)), konst: true, small: true}
		} else {
			idx = &wexpr{k: "bin", ty: tU32, op: "%", args: []*wexpr{g.load(tU32), {k: "lit", ty: tU32, bits: uint32(n), konst: true, small: true}}}
		}
		place := &wexpr{k: "idx", ty: p.ty, args: []*wexpr{{k: "var", ty: at, name: name}, idx}}
		args[i] = &wexpr{k: "addr", ty: p.ty, args: []*wexpr{place}}
		for j := 0; j < n; j++ {
			observe = append(observe, &wexpr{k: "idx", ty: p.ty, args: []*wexpr{{k: "var", ty: at, name: name}, {k: "lit", ty: tU32, bits: uint32(j), konst: true, small: true}}})
		}
	}
	g.f("ptr-call-block")
	toWord := func(e *wexpr) *wexpr {
		t := e.ty
		var v *wexpr
		switch t.scalarOf().k {
		case "u32":
			v = e
		case "bool":
			v = &wexpr{k: "call", ty: t.withScalar(tU32), name: "select", args: []*wexpr{g.splat(t.withScalar(tU32), 0), g.splat(t.withScalar(tU32), 1), e}}
		default:
			v = &wexpr{k: "bitcast", ty: t.withScalar(tU32), args: []*wexpr{e}}
		}
		if t.k == "vec" {
			mul := make([]*wexpr, t.n)
			for i := range mul {
				mul[i] = &wexpr{k: "lit", ty: tU32, bits: uint32(2*i + 3), konst: true, small: true}
			}
			v = &wexpr{k: "call", ty: tU32, name: "dot", args: []*wexpr{v, {k: "cons", ty: tVec(t.n, tU32), args: mul, konst: true}}}
		}
		return v
	}
	out := func(e *wexpr) *wstmt {
		idx := g.outIdx % g.nOut
		g.outIdx++
		return &wstmt{k: "opassign", op: "^", lhs: &wexpr{k: "idx", ty: tU32, args: []*wexpr{{k: "var", ty: tArr(0, tU32), name: "outp"}, {k: "lit", ty: tU32, bits: uint32(idx), konst: true, small: true}}}, e: toWord(e)}
	}
	call := &wexpr{k: "callfn", ty: f.ret, name: f.name, args: args}
	if f.ret != nil {
		rn := g.fresh("ll")
		body = append(body, &wstmt{k: "let", name: rn, ty: f.ret, e: call})
		body = append(body, out(&wexpr{k: "var", ty: f.ret, name: rn}))
	} else {
		call.ty = &wty{k: "void"}
		body = append(body, &wstmt{k: "callstmt", e: call})
	}
	for _, o := range observe {
		body = append(body, out(o))
	}
	return &wstmt{k: "block", body: body}
}

func (g *wgen) callVoid(f *wfunc) *wexpr {
	args := make([]*wexpr, len(f.params))
	usedPtr := map[string]bool{}
	for i, p := range f.params {
		if f.ptrs[i] {
			a := g.ptrArg(p.ty, usedPtr)
			if a == nil {
				return nil
			}
			args[i] = a
		} else {
			args[i] = g.expr(p.ty, 2)
		}
	}
	return &wexpr{k: "callfn", ty: &wty{k: "void"}, name: f.name, args: args}
}

func (g *wgen) switchStmt(depth int) *wstmt {
	g.f("switch")
	t := []*wty{tI32, tU32}[g.c.rng.Intn(2)]
	// selector: a small run-time value so that cases are actually hit
	sel := &wexpr{k: "bin", ty: tU32, op: "%", args: []*wexpr{g.load(tU32), {k: "lit", ty: tU32, bits: 5, konst: true, small: true}}}
	if t.k == "i32" {
		sel = &wexpr{k: "bitcast", ty: tI32, args: []*wexpr{sel}}
	}
	ncase := 1 + g.c.rng.Intn(3)
	used := map[uint32]bool{}
	var cases []wcase
	defPos := g.c.rng.Intn(ncase + 1)
	g.inSwitch++
	savedLoop := 0
	_ = savedLoop
	for i := 0; i <= ncase; i++ {
		var c wcase
		if i == defPos {
			c.deflt = true
			if g.c.chance(0.3) { // `case 7, default:`
				v := uint32(g.c.rng.Intn(8))
				if !used[v] {
					used[v] = true
					c.sels = []uint32{v}
					g.f("case-with-default")
				}
			}
		} else {
			k := 1 + g.c.rng.Intn(2)
			for j := 0; j < k; j++ {
				v := uint32(g.c.rng.Intn(8))
				if !used[v] {
					used[v] = true
					c.sels = append(c.sels, v)
				}
			}
			if len(c.sels) == 0 {
				continue
			}
			if len(c.sels) > 1 {
				g.f("case-multi")
			}
		}
		g.push()
		c.body = g.stmts(1+g.c.rng.Intn(2), depth-1)
		if g.o.callInSwitch && !g.inCont && g.c.chance(0.5) {
			if st := g.storeOutCall(); st != nil {
				g.f("call-in-switch-clause")
				c.body = append([]*wstmt{st}, c.body...)
			}
		}
		// explicit trailing break in some cases (valid WGSL; a validator must accept it)
		if g.o.swBreak && g.c.chance(0.3) && (len(c.body) == 0 || !isJump(c.body[len(c.body)-1])) {
			c.body = append(c.body, &wstmt{k: "break"})
			g.f("break-in-switch")
		}
		g.pop()
		if c.body == nil {
			c.body = []*wstmt{}
		}
		cases = append(cases, c)
	}
	g.inSwitch--
	return &wstmt{k: "switch", e: sel, cases: cases}
}

// ptrLetStmt: `let llN = &place;` for a mutable function-space place (whole local, array element, struct field); the
// binding is then used like a pointer parameter: `(*llN)` in expressions and on the left of assignments.
func (g *wgen) ptrLetStmt() *wstmt {
	vs := g.visible(func(v wscopeVar) bool { return v.mutable && !v.ptr && !v.locked && !v.global })
	if len(vs) == 0 {
		return nil
	}
	v := vs[g.c.rng.Intn(len(vs))]
	t := v.ty
	switch {
	case t.k == "arr" && g.c.chance(0.6):
		t = t.elem
	case t.k == "struct" && len(t.flds) > 0 && g.c.chance(0.6):
		t = t.flds[g.c.rng.Intn(len(t.flds))].ty
	}
	place := g.ptrArg(t, map[string]bool{})
	if place == nil {
		return nil
	}
	name := g.fresh("ll")
	g.declare(wscopeVar{name: name, ty: t, ptr: true, mutable: true})
	g.f("ptr-let")
	return &wstmt{k: "let", name: name, ty: t, e: place, infer: true}
}

func isJump(s *wstmt) bool { return s.k == "break" || s.k == "continue" || s.k == "return" }

func (g *wgen) loopStmt(depth int) *wstmt {
	bound := uint32(1 + g.c.rng.Intn(4))
	ctr := g.fresh("ii")
	kind := g.c.rng.Intn(3)
	if g.o.preLetBoost && g.c.chance(0.7) {
		kind = 2
	}
	if g.inCont {
		kind = 0
	}
	limit := &wexpr{k: "lit", ty: tU32, bits: bound, konst: true, small: true}
	ctrE := &wexpr{k: "var", ty: tU32, name: ctr}
	switch kind {
	case 0: // for
		g.f("for")
		g.push()
		g.declare(wscopeVar{name: ctr, ty: tU32, locked: true})
		g.inLoop++
		saved := g.inSwitch
		g.inSwitch = 0
		g.push()
		body := g.stmts(1+g.c.rng.Intn(3), depth-1)
		g.pop()
		g.inSwitch = saved
		g.inLoop--
		g.pop()
		if body == nil {
			body = []*wstmt{}
		}
		init := &wstmt{k: "var", name: ctr, ty: tU32, e: &wexpr{k: "lit", ty: tU32, bits: 0, konst: true, small: true}}
		upd := &wstmt{k: "incr", lhs: ctrE}
		if g.c.chance(0.3) {
			upd = &wstmt{k: "opassign", op: "+", lhs: ctrE, e: &wexpr{k: "lit", ty: tU32, bits: 1, konst: true, small: true}}
		}
		return &wstmt{k: "for", init: init, e: &wexpr{k: "bin", ty: tBool, op: "<", args: []*wexpr{ctrE, limit}}, upd: upd, body: body}
	case 1: // while
		g.f("while")
		// counter declared in an enclosing block; incremented first thing in the body so `continue` is safe
		g.push()
		g.declare(wscopeVar{name: ctr, ty: tU32, locked: true})
		g.inLoop++
		saved := g.inSwitch
		g.inSwitch = 0
		g.push()
		body := g.stmts(1+g.c.rng.Intn(3), depth-1)
		g.pop()
		g.inSwitch = saved
		g.inLoop--
		g.pop()
		body = append([]*wstmt{{k: "incr", lhs: ctrE}}, body...)
		decl := &wstmt{k: "var", name: ctr, ty: tU32, e: &wexpr{k: "lit", ty: tU32, bits: 0, konst: true, small: true}}
		wh := &wstmt{k: "while", e: &wexpr{k: "bin", ty: tBool, op: "<", args: []*wexpr{ctrE, limit}}, body: body}
		return &wstmt{k: "block", body: []*wstmt{decl, wh}}
	default: // loop { ... continuing { i++; break if i >= n; } }
		g.f("loop")
		g.push()
		g.declare(wscopeVar{name: ctr, ty: tU32, locked: true})
		g.inLoop++
		saved := g.inSwitch
		g.inSwitch = 0
		g.push()
		body := g.stmts(1+g.c.rng.Intn(3), depth-1)
		g.pop()
		var cont []*wstmt
		if g.c.chance(0.5) {
			g.f("continuing-body")
			g.inCont = true
			g.push()
			cont = g.stmts(1+g.c.rng.Intn(2), 0)
			g.pop()
			g.inCont = false
		}
		if g.o.contLet && (g.c.chance(0.4) || g.o.contLetBoost) {
			// a `let` of the loop body used in `continuing`: its value is the one of THIS iteration, whatever the body and
			// the continuing block store afterwards
			g.f("body-let-used-in-continuing")
			bn := g.fresh("ll")
			a, b := uint32(g.c.rng.Intn(16)), uint32(g.c.rng.Intn(16))
			body = append([]*wstmt{{k: "let", name: bn, ty: tU32, e: wOut(a)}}, body...)
			one := &wexpr{k: "lit", ty: tU32, bits: 1, konst: true, small: true}
			cont = append([]*wstmt{{k: "opassign", op: "+", lhs: wOut(a), e: one},
				{k: "opassign", op: "^", lhs: wOut(b), e: &wexpr{k: "var", ty: tU32, name: bn}}}, cont...)
		}
		g.inSwitch = saved
		g.inLoop--
		g.pop()
		// sometimes the exit test looks at the counter's value from *before* the increment, bound by a `let` in the
		// continuing block: `let llK = ii; ii++; break if llK + 1u >= N;` — same trip count, but the condition must be
		// evaluated from the let, not from the variable as it is when the test is written
		var pre *wexpr
		if !g.o.noPreLet && (g.c.chance(0.3) || g.o.preLetBoost) {
			pn := g.fresh("ll")
			cont = append(cont, &wstmt{k: "let", name: pn, ty: tU32, e: &wexpr{k: "var", ty: tU32, name: ctr}})
			pre = &wexpr{k: "bin", ty: tU32, op: "+", args: []*wexpr{{k: "var", ty: tU32, name: pn}, {k: "lit", ty: tU32, bits: 1, konst: true, small: true}}}
			g.f("break-if-on-let")
		}
		cont = append(cont, &wstmt{k: "incr", lhs: ctrE})
		decl := &wstmt{k: "var", name: ctr, ty: tU32, e: &wexpr{k: "lit", ty: tU32, bits: 0, konst: true, small: true}}
		var brk *wexpr
		if pre != nil || g.c.chance(0.6) {
			g.f("break-if")
			lhsE := ctrE
			if pre != nil {
				lhsE = pre
			}
			brk = &wexpr{k: "bin", ty: tBool, op: ">=", args: []*wexpr{lhsE, limit}}
		} else {
			// explicit guard at the top of the body
			guard := &wstmt{k: "if", e: &wexpr{k: "bin", ty: tBool, op: ">=", args: []*wexpr{ctrE, limit}}, body: []*wstmt{{k: "break"}}}
			body = append([]*wstmt{guard}, body...)
		}
		if body == nil {
			body = []*wstmt{}
		}
		lp := &wstmt{k: "loop", body: body, els: cont, brk: brk}
		return &wstmt{k: "block", body: []*wstmt{decl, lp}}
	}
}

func (g *wgen) helper(i int) *wfunc {
	f := &wfunc{name: fmt.Sprintf("helper%d", i)}
	np := g.c.rng.Intn(4)
	if g.c.chance(0.25) {
		np = 4 + g.c.rng.Intn(3) // long signatures (function-type caches keyed by the parameter list)
	}
	var like *wfunc
	if len(g.funcs) > 0 && g.c.chance(0.4) {
		// the same parameter types as the previous helper (usually with another result type)
		like = g.funcs[len(g.funcs)-1]
		np = len(like.params)
		g.f("helper-same-params")
	}
	g.scopes = nil
	g.push()
	for j := 0; j < np; j++ {
		t := g.valueTy()
		name := fmt.Sprintf("pp%d_%d", i, j)
		ptr := g.c.chance(0.25)
		if like != nil {
			t, ptr = like.params[j].ty, like.ptrs[j]
		}
		f.params = append(f.params, wfield{name: name, ty: t})
		f.ptrs = append(f.ptrs, ptr)
		g.declare(wscopeVar{name: name, ty: t, ptr: ptr, mutable: ptr})
		if ptr {
			g.f("ptr-param")
		}
	}
	if g.c.chance(0.75) {
		f.ret = g.valueTy()
	}
	g.curRet = f.ret
	g.budget = 3 + g.c.rng.Intn(g.o.maxStmts/2+1)
	g.push()
	f.body = g.stmts(g.budget, g.o.maxDepth-1)
	if f.ret != nil {
		ret := &wstmt{k: "return", e: g.expr(f.ret, 3)}
		if !g.o.flatRet && g.c.chance(0.12) {
			// the function's last statement is a loop that is only left by `return` (valid: the loop never falls through):
			// `var rlK = 0u; loop { if rlK >= N { return e; } rlK++; }`
			ctr := g.fresh("rl")
			ce := &wexpr{k: "var", ty: tU32, name: ctr}
			lim := &wexpr{k: "lit", ty: tU32, bits: uint32(g.c.rng.Intn(3)), konst: true, small: true}
			tail := []*wstmt{
				{k: "var", name: ctr, ty: tU32, e: &wexpr{k: "lit", ty: tU32, bits: 0, konst: true, small: true}},
				{k: "loop", body: []*wstmt{
					{k: "if", e: &wexpr{k: "bin", ty: tBool, op: ">=", args: []*wexpr{ce, lim}}, body: []*wstmt{ret}},
					{k: "incr", lhs: ce}}}}
			if g.c.chance(0.4) {
				// … inside a clause of a trailing switch whose other clause returns directly
				sel := &wexpr{k: "bin", ty: tU32, op: "&", args: []*wexpr{g.load(tU32), {k: "lit", ty: tU32, bits: 1, konst: true, small: true}}}
				ret2 := &wstmt{k: "return", e: g.expr(f.ret, 2)}
				tail = []*wstmt{{k: "switch", e: sel, cases: []wcase{{sels: []uint32{1}, body: tail}, {deflt: true, body: []*wstmt{ret2}}}}}
				g.f("function-ends-in-switch-with-loop-left-by-return")
			}
			f.body = append(f.body, tail...)
			g.f("function-ends-in-loop-left-by-return")
		} else {
			f.body = append(f.body, ret)
		}
	}
	g.pop()
	g.pop()
	if f.body == nil {
		f.body = []*wstmt{}
	}
	return f
}

// genModule builds one module.  Buffers: inp (storage read, 16 words), outp (storage read_write, nOut words).
func genModule(c *ctx, o wgenOpts) (*wmodule, map[string]int) {
	g := &wgen{c: c, o: o, m: &wmodule{wg: 1}, feat: map[string]int{}, nOut: 16}
	if o.structs && c.chance(0.6) {
		ns := 1 + c.rng.Intn(2)
		for i := 0; i < ns; i++ {
			s := &wty{k: "struct", name: fmt.Sprintf("St%d", i)}
			nf := 1 + c.rng.Intn(4)
			for j := 0; j < nf; j++ {
				ft := g.valueTy()
				if c.chance(0.2) {
					ft = tArr(2+c.rng.Intn(2), g.scalarTy())
				}
				if ft.scalarOf().k == "bool" || (ft.k == "arr" && ft.elem.k == "bool") {
					ft = tU32 // keep structs host-shareable so they can also live in buffers
				}
				s.flds = append(s.flds, wfield{name: fmt.Sprintf("fld%d", j), ty: ft})
			}
			g.m.structs = append(g.m.structs, s)
			g.f("struct-decl")
		}
	}
	g.m.globals = append(g.m.globals,
		&wglobal{name: "inp", space: "storage_r", ty: tU32, rt: true, binding: 0},
		&wglobal{name: "outp", space: "storage_rw", ty: tU32, rt: true, binding: 1})
	// module constants and private globals
	g.scopes = nil
	g.push()
	nk := c.rng.Intn(3)
	var globalsScope []wscopeVar
	for i := 0; i < nk; i++ {
		t := []*wty{tI32, tU32}[c.rng.Intn(2)]
		name := fmt.Sprintf("KK%d", i)
		g.m.consts = append(g.m.consts, &wstmt{k: "const", name: name, ty: t, e: g.lit(t, true)})
		globalsScope = append(globalsScope, wscopeVar{name: name, ty: t, konst: true, small: true})
		g.f("const-module")
	}
	if c.chance(0.5) || o.forceShadow {
		t := []*wty{tI32, tU32}[c.rng.Intn(2)]
		name := "SH0"
		if o.shadowUse {
			name = "SX0" // the risky shape gets its own name so that its failures are attributable
		}
		g.m.consts = append(g.m.consts, &wstmt{k: "const", name: name, ty: t, e: g.lit(t, true)})
		g.m.shadowConsts = append(g.m.shadowConsts, wfield{name: name, ty: t})
	}
	np := c.rng.Intn(3)
	for i := 0; i < np; i++ {
		t := g.valueTy()
		name := fmt.Sprintf("gp%d", i)
		gl := &wglobal{name: name, space: "private", ty: t}
		if (c.chance(0.5) || o.negInit) && o.privInit && (t.k != "vec" || o.vecInit) {
			gl.init = g.lit(t, !o.negInit)
			if t.k == "vec" {
				g.f("private-init-vector")
				if t.n >= 3 && c.chance(0.4) {
					// vec4<T>(vec2<T>(a, b), c, d): a shorter vector among the components of the initialiser
					inner := &wexpr{k: "cons", ty: tVec(2, t.elem), args: gl.init.args[:2], konst: gl.init.konst}
					gl.init = &wexpr{k: "cons", ty: t, args: append([]*wexpr{inner}, gl.init.args[2:]...), konst: gl.init.konst}
					g.f("private-init-nested-vector")
				}
			}
			if hasNegLit(gl.init) {
				g.f("private-init-negative")
			}
			if o.negInit && t.isScalar() && t.isInt() {
				// `= 3i * 4i`: an operator expression over literals
				gl.init = &wexpr{k: "bin", ty: t, op: c.pick("+", "*", "-"), args: []*wexpr{g.lit(t, true), g.lit(t, true)}, konst: true}
				g.f("private-init-operator-expression")
			}
		} else if o.constInit && t.isScalar() {
			for _, cs := range g.m.consts {
				if cs.ty != nil && cs.ty.eq(t) && cs.k == "const" {
					gl.init = &wexpr{k: "var", ty: t, name: cs.name, konst: true}
					g.f("private-init-named-const")
					break
				}
			}
		}
		g.m.globals = append(g.m.globals, gl)
		globalsScope = append(globalsScope, wscopeVar{name: name, ty: t, mutable: true, global: true})
		g.f("private-global")
	}
	for i := 0; i < o.helpers; i++ {
		if !c.chance(0.7) {
			continue
		}
		f := g.helper(i)
		// helpers see module-scope names too
		g.m.funcs = append(g.m.funcs, f)
		g.funcs = append(g.funcs, f)
		g.f("helper-fn")
	}
	_ = globalsScope
	// entry point
	g.scopes = nil
	g.push()
	for _, v := range globalsScope {
		g.declare(v)
	}
	g.curRet = nil
	g.budget = o.maxStmts
	g.push()
	body := g.stmts(o.maxStmts, o.maxDepth)
	// make sure something is observable
	for i := 0; i < 2; i++ {
		body = append(body, g.storeOut(3))
	}
	g.pop()
	if o.forceShadow && len(g.m.shadowConsts) > 0 {
		k := g.m.shadowConsts[0]
		alias := g.fresh("unsh")
		outer := &wexpr{k: "var", ty: k.ty, name: k.name, konst: true, small: true}
		init := &wexpr{k: "bin", ty: k.ty, op: "^", args: []*wexpr{outer, g.load(k.ty)}}
		use := &wexpr{k: "var", ty: k.ty, name: k.name, alias: alias}
		var v *wexpr = use
		if k.ty.k == "i32" {
			v = &wexpr{k: "bitcast", ty: tU32, args: []*wexpr{use}}
		}
		blk := &wstmt{k: "block", body: []*wstmt{{k: "var", name: k.name, alias: alias, ty: k.ty, e: init},
			{k: "assign", lhs: &wexpr{k: "idx", ty: tU32, args: []*wexpr{{k: "var", ty: tArr(0, tU32), name: "outp"}, {k: "lit", ty: tU32, bits: 15, konst: true}}}, e: v}}}
		body = append([]*wstmt{blk}, body...)
		g.f("forced-shadow")
	}
	g.m.entry = &wfunc{name: "main", body: body}
	g.m.lateDecls = c.chance(0.4) || o.forceShadow
	if g.m.lateDecls {
		g.f("late-module-decls")
	}
	if o.contCall {
		addContCall(c, g.m)
		g.f("continuing-only-call")
	}
	if o.fwdNest {
		addFwdNest(c, g.m)
		g.f("forwarded-continue-through-two-switches")
	}
	if o.froundBoost {
		// knob programs: at least one round() of a run-time half-integer reaches the output
		n := 1 + c.rng.Intn(3)
		pre := []*wstmt{}
		for i := 0; i < n; i++ {
			r := &wexpr{k: "call", ty: tF32, name: "round", args: []*wexpr{g.halves(tF32)}}
			g.f("builtin:round:f32")
			pre = append(pre, &wstmt{k: "opassign", op: "^", lhs: wOut(uint32(c.rng.Intn(16))), e: wBitcast(tU32, r)})
		}
		g.m.entry.body = append(pre, g.m.entry.body...)
	}
	if o.selSwzBoost {
		// knob programs: a component of a scalar-condition select reaches the output
		n := 1 + c.rng.Intn(2)
		pre := []*wstmt{}
		for i := 0; i < n; i++ {
			vt := tVec(2+c.rng.Intn(3), tU32)
			sel := &wexpr{k: "call", ty: vt, name: "select", args: []*wexpr{g.load(vt), g.load(vt), g.load(tBool)}}
			two := &wexpr{k: "swz", ty: tVec(2, tU32), name: string([]byte{swzNames[c.rng.Intn(vt.n)], swzNames[c.rng.Intn(vt.n)]}), args: []*wexpr{sel}}
			comp := &wexpr{k: "swz", ty: tU32, name: string(swzNames[c.rng.Intn(2)]), args: []*wexpr{two}}
			g.f("component-of-scalar-select")
			pre = append(pre, &wstmt{k: "opassign", op: "^", lhs: wOut(uint32(c.rng.Intn(16))), e: comp})
		}
		g.m.entry.body = append(pre, g.m.entry.body...)
	}
	if o.contLetBoost {
		addContLetLoop(c, g.m)
		g.f("body-let-used-in-continuing")
	}
	if o.preLetBoost {
		addPreLetLoop(c, g.m)
		g.f("break-if-on-let-observable")
	}
	return g.m, g.feat
}

func hasNegLit(e *wexpr) bool {
	if e.k == "lit" && (e.ty.k == "i32" || e.ty.k == "f32") && int32(e.bits) < 0 {
		return true
	}
	for _, a := range e.args {
		if hasNegLit(a) {
			return true
		}
	}
	return false
}

func defaultGenOpts(c *ctx) wgenOpts {
	// one module in four spells its literals in the other forms of the grammar (see wLitSalt); the hexadecimal float forms
	// (recorded finding C08-hex-float-literal-rejected) only where wHexFloats is set (the acceptance sweep of C08)
	wLitSalt = 0
	if c.chance(0.25) {
		wLitSalt = c.rng.Uint32() | 1
	}
	return wgenOpts{shadowUse: c.chance(0.1), swBreak: c.chance(0.3), absU: c.chance(0.1), negInit: c.chance(0.1), vecInit: c.chance(0.1), rawShift: c.chance(0.1), clz: c.chance(0.1), privInit: c.chance(0.3), contCall: c.chance(0.1), ptrLet: c.chance(0.35), maxStmts: 6 + c.rng.Intn(14), maxDepth: 1 + c.rng.Intn(3), floats: c.chance(0.5), helpers: c.rng.Intn(4), structs: c.chance(0.5), contLet: c.chance(0.5), scalarSel: true, multiSwz: true, pack4: true}
}


// addContCall appends to main a loop whose `continuing` block (or, as a `for`, whose update clause) is the only call site
// of a fresh helper, which in turn is the only user of a fresh private global — the shape per-entry-point reachability
// analyses must not lose.
func addContCall(c *ctx, m *wmodule) {
	gname, hname, iname := "gpcc", "hcont", "icc"
	gv := &wexpr{k: "var", ty: tU32, name: gname}
	lit := func(v uint32) *wexpr { return &wexpr{k: "lit", ty: tU32, bits: v, konst: true, small: v <= 8} }
	m.globals = append(m.globals, &wglobal{name: gname, space: "private", ty: tU32})
	h := &wfunc{name: hname, ret: tU32}
	h.body = []*wstmt{
		{k: "assign", lhs: gv, e: &wexpr{k: "bin", ty: tU32, op: "+", args: []*wexpr{gv, lit(3)}}},
		{k: "return", e: gv},
	}
	m.funcs = append(m.funcs, h)
	iv := &wexpr{k: "var", ty: tU32, name: iname}
	out := &wexpr{k: "idx", ty: tU32, args: []*wexpr{{k: "var", ty: tArr(0, tU32), name: "outp"}, lit(15)}}
	call := &wexpr{k: "callfn", ty: tU32, name: hname}
	decl := &wstmt{k: "var", name: iname, ty: tU32, e: lit(0)}
	var loop *wstmt
	if c.chance(0.5) {
		// loop { if icc >= 2 { break; } continuing { icc = icc + 1; outp[15] ^= hcont(); } }
		loop = &wstmt{k: "loop",
			body: []*wstmt{{k: "if", e: &wexpr{k: "bin", ty: tBool, op: ">=", args: []*wexpr{iv, lit(2)}}, body: []*wstmt{{k: "break"}}}},
			els: []*wstmt{
				{k: "assign", lhs: iv, e: &wexpr{k: "bin", ty: tU32, op: "+", args: []*wexpr{iv, lit(1)}}},
				{k: "opassign", op: "^", lhs: out, e: call},
			}}
	} else {
		// for (var icc = 0u; icc < 9u; icc += hcont()) { outp[15] += 1u; }
		loop = &wstmt{k: "for", init: decl, e: &wexpr{k: "bin", ty: tBool, op: "<", args: []*wexpr{iv, lit(9)}},
			upd:  &wstmt{k: "opassign", op: "+", lhs: iv, e: call},
			body: []*wstmt{{k: "opassign", op: "+", lhs: out, e: lit(1)}}}
		decl = nil
	}
	var blk []*wstmt
	if decl != nil {
		blk = append(blk, decl)
	}
	blk = append(blk, loop)
	// before a trailing return, if any
	body := m.entry.body
	n := len(body)
	if n > 0 && body[n-1].k == "return" {
		body = append(append(append([]*wstmt{}, body[:n-1]...), &wstmt{k: "block", body: blk}), body[n-1])
	} else {
		body = append(body, &wstmt{k: "block", body: blk})
	}
	m.entry.body = body
}

// addFwdNest appends to main a loop holding a single-clause switch (written as do { } while(false) by the HLSL / GLSL
// writers) whose body contains a regular switch with a `continue` in one clause, followed by an observable statement —
// the shape in which a forwarded continue has to leave two switches.
func addFwdNest(c *ctx, m *wmodule) {
	lit := func(v uint32) *wexpr { return &wexpr{k: "lit", ty: tU32, bits: v, konst: true, small: v <= 8} }
	inpAt := func(i uint32) *wexpr {
		return &wexpr{k: "idx", ty: tU32, args: []*wexpr{{k: "var", ty: tArr(0, tU32), name: "inp"}, lit(i)}}
	}
	outAt := func(i uint32) *wexpr {
		return &wexpr{k: "idx", ty: tU32, args: []*wexpr{{k: "var", ty: tArr(0, tU32), name: "outp"}, lit(i)}}
	}
	iv := &wexpr{k: "var", ty: tU32, name: "ifw"}
	sel := func(k uint32) *wexpr {
		return &wexpr{k: "bin", ty: tU32, op: "%", args: []*wexpr{{k: "bin", ty: tU32, op: "+", args: []*wexpr{inpAt(k), iv}}, lit(3)}}
	}
	inner := &wstmt{k: "switch", e: sel(uint32(c.rng.Intn(16))), cases: []wcase{
		{sels: []uint32{1}, body: []*wstmt{{k: "continue"}}},
		{sels: []uint32{2}, body: []*wstmt{{k: "opassign", op: "+", lhs: outAt(13), e: lit(7)}}},
		{deflt: true, body: nil},
	}}
	if c.chance(0.5) {
		// the continue one level deeper: inside an `if` of the clause
		inner.cases[0].body = []*wstmt{{k: "if", e: &wexpr{k: "bin", ty: tBool, op: "!=", args: []*wexpr{inpAt(uint32(c.rng.Intn(16))), lit(0)}}, body: []*wstmt{{k: "continue"}}},
			{k: "opassign", op: "^", lhs: outAt(13), e: lit(1)}}
	}
	outer := &wstmt{k: "switch", e: sel(uint32(c.rng.Intn(16))), cases: []wcase{
		{deflt: true, body: []*wstmt{inner, {k: "opassign", op: "+", lhs: outAt(14), e: lit(5)}}},
	}}
	if c.chance(0.3) {
		outer.cases = []wcase{{sels: []uint32{0, 1}, deflt: true, body: outer.cases[0].body}}
	}
	loop := &wstmt{k: "loop",
		body: []*wstmt{{k: "if", e: &wexpr{k: "bin", ty: tBool, op: ">=", args: []*wexpr{iv, lit(3)}}, body: []*wstmt{{k: "break"}}},
			outer, {k: "opassign", op: "+", lhs: outAt(12), e: lit(1)}},
		els: []*wstmt{{k: "assign", lhs: iv, e: &wexpr{k: "bin", ty: tU32, op: "+", args: []*wexpr{iv, lit(1)}}}}}
	blk := &wstmt{k: "block", body: []*wstmt{{k: "var", name: "ifw", ty: tU32, e: lit(0)}, loop}}
	body := m.entry.body
	n := len(body)
	if n > 0 && body[n-1].k == "return" {
		body = append(append(append([]*wstmt{}, body[:n-1]...), blk), body[n-1])
	} else {
		body = append(body, blk)
	}
	m.entry.body = body
}


// addPreLetLoop appends to main a counting loop whose exit test looks at the counter's value from before the increment,
// bound by a `let` in the continuing block, and whose body is observable once per iteration:
// `var ipl = 0u; loop { outp[11] += 1u; continuing { let lpl = ipl; ipl = ipl + 1u; break if lpl >= N; } }` — N + 1 trips.
func addPreLetLoop(c *ctx, m *wmodule) {
	lit := func(v uint32) *wexpr { return &wexpr{k: "lit", ty: tU32, bits: v, konst: true, small: v <= 8} }
	outAt := func(i uint32) *wexpr {
		return &wexpr{k: "idx", ty: tU32, args: []*wexpr{{k: "var", ty: tArr(0, tU32), name: "outp"}, lit(i)}}
	}
	iv := &wexpr{k: "var", ty: tU32, name: "ipl"}
	lv := &wexpr{k: "var", ty: tU32, name: "lpl"}
	loop := &wstmt{k: "loop",
		body: []*wstmt{{k: "opassign", op: "+", lhs: outAt(11), e: lit(1)}},
		els: []*wstmt{{k: "let", name: "lpl", ty: tU32, e: iv},
			{k: "assign", lhs: iv, e: &wexpr{k: "bin", ty: tU32, op: "+", args: []*wexpr{iv, lit(1)}}}},
		brk: &wexpr{k: "bin", ty: tBool, op: ">=", args: []*wexpr{lv, lit(uint32(1 + c.rng.Intn(3)))}}}
	blk := &wstmt{k: "block", body: []*wstmt{{k: "var", name: "ipl", ty: tU32, e: lit(0)}, loop}}
	body := m.entry.body
	n := len(body)
	if n > 0 && body[n-1].k == "return" {
		body = append(append(append([]*wstmt{}, body[:n-1]...), blk), body[n-1])
	} else {
		body = append(body, blk)
	}
	m.entry.body = body
}


// addContLetLoop appends to main `{ var icl = 0u; loop { let lcl = outp[a]; continuing { outp[a] += 1u; outp[b] ^= lcl; icl++;
// break if icl >= N; } } }`: the value of `lcl` is the one read in the body of the same iteration.
func addContLetLoop(c *ctx, m *wmodule) {
	lit := func(v uint32) *wexpr { return &wexpr{k: "lit", ty: tU32, bits: v, konst: true, small: v <= 8} }
	a, b := uint32(c.rng.Intn(16)), uint32(c.rng.Intn(16))
	iv := &wexpr{k: "var", ty: tU32, name: "icl"}
	loop := &wstmt{k: "loop",
		body: []*wstmt{{k: "let", name: "lcl", ty: tU32, e: wOut(a)}},
		els: []*wstmt{{k: "opassign", op: "+", lhs: wOut(a), e: lit(1)},
			{k: "opassign", op: "^", lhs: wOut(b), e: &wexpr{k: "var", ty: tU32, name: "lcl"}},
			{k: "incr", lhs: iv}},
		brk: &wexpr{k: "bin", ty: tBool, op: ">=", args: []*wexpr{iv, lit(uint32(2 + c.rng.Intn(3)))}}}
	blk := &wstmt{k: "block", body: []*wstmt{{k: "var", name: "icl", ty: tU32, e: lit(0)}, loop}}
	body := m.entry.body
	n := len(body)
	if n > 0 && body[n-1].k == "return" {
		body = append(append(append([]*wstmt{}, body[:n-1]...), blk), body[n-1])
	} else {
		body = append(body, blk)
	}
	m.entry.body = body
}

// hasNestedReturn: does some helper function contain a `return` inside a loop or a switch (at any depth)?  The decidable
// shape of the recorded inliner defect C13-inline-nested-return.
func hasNestedReturn(m *wmodule) bool {
	var walk func(l []*wstmt, nested bool) bool
	walk = func(l []*wstmt, nested bool) bool {
		for _, st := range l {
			if st.k == "return" && nested {
				return true
			}
			inner := nested || st.k == "loop" || st.k == "for" || st.k == "while" || st.k == "switch"
			if walk(st.body, inner) || walk(st.els, inner) {
				return true
			}
			for _, cs := range st.cases {
				if walk(cs.body, true) {
					return true
				}
			}
		}
		return false
	}
	for _, f := range m.funcs {
		if walk(f.body, false) {
			return true
		}
	}
	return false
}

// hasMultiSpill: is some by-value array (a `let` binding or a by-value parameter) read at two or more places of one
// function, at least once with a run-time index?  The decidable shape of the recorded SPIR-V defect C01-spv-spill-stored-once (the value is
// stored to its spill variable only where the first such access is emitted).
func hasMultiSpill(m *wmodule) bool {
	check := func(f *wfunc) bool {
		byValue := map[string]bool{}
		for i, p := range f.params {
			if p.ty.k == "arr" && !(i < len(f.ptrs) && f.ptrs[i]) {
				byValue[p.name] = true
			}
		}
		count, total := map[string]int{}, map[string]int{}
		var we func(e *wexpr)
		we = func(e *wexpr) {
			if e == nil {
				return
			}
			if e.k == "idx" && len(e.args) == 2 && e.args[0].k == "var" && byValue[e.args[0].name] {
				// once spilled, constant indices read the spill variable too
				total[e.args[0].name]++
				if e.args[1].k != "lit" {
					count[e.args[0].name]++
				}
			}
			for _, a := range e.args {
				we(a)
			}
		}
		var ws func(l []*wstmt)
		wst := func(st *wstmt) {}
		wst = func(st *wstmt) {
			if st == nil {
				return
			}
			if st.k == "let" && st.ty != nil && st.ty.k == "arr" {
				byValue[st.name] = true
			}
			we(st.e)
			we(st.lhs)
			we(st.brk)
			wst(st.init)
			wst(st.upd)
			ws(st.body)
			ws(st.els)
			for _, cs := range st.cases {
				ws(cs.body)
			}
		}
		ws = func(l []*wstmt) {
			for _, st := range l {
				wst(st)
			}
		}
		ws(f.body)
		for name, n := range count {
			if n >= 1 && total[name] >= 2 {
				return true
			}
		}
		return false
	}
	for _, f := range m.funcs {
		if check(f) {
			return true
		}
	}
	return m.entry != nil && check(m.entry)
}

// walkModuleExprs calls f on every expression node of the module's functions.
func walkModuleExprs(m *wmodule, f func(e *wexpr)) {
	var we func(e *wexpr)
	we = func(e *wexpr) {
		if e == nil {
			return
		}
		f(e)
		for _, a := range e.args {
			we(a)
		}
	}
	var ws func(l []*wstmt)
	var wst func(st *wstmt)
	wst = func(st *wstmt) {
		if st == nil {
			return
		}
		we(st.e)
		we(st.lhs)
		we(st.brk)
		wst(st.init)
		wst(st.upd)
		ws(st.body)
		ws(st.els)
		for _, cs := range st.cases {
			ws(cs.body)
		}
	}
	ws = func(l []*wstmt) {
		for _, st := range l {
			wst(st)
		}
	}
	for _, fn := range m.funcs {
		ws(fn.body)
	}
	if m.entry != nil {
		ws(m.entry.body)
	}
}

// hasSwzOfCompound: is there a multi-component swizzle, or a run-time index, applied directly to a binary / comparison
// expression or to a select() with a scalar condition?  The decidable shape of the recorded MSL defect
// C04-msl-swizzle-base-unparenthesised.
func hasSwzOfCompound(m *wmodule) bool {
	found := false
	walkModuleExprs(m, func(e *wexpr) {
		if len(e.args) == 0 {
			return
		}
		b := e.args[0]
		compound := b.k == "bin" || (b.k == "call" && b.name == "select" && len(b.args) == 3 && b.args[2].ty != nil && b.args[2].ty.k == "bool")
		if !compound {
			return
		}
		if e.k == "swz" && len(e.name) > 1 {
			found = true
		}
		if e.k == "idx" && len(e.args) == 2 && e.args[1].k != "lit" {
			found = true
		}
	})
	return found
}

// hasLetSnapshot: is there a `let x = v;` whose initialiser is exactly a variable of array, vector or matrix type, with x
// indexed somewhere (`x[i]`)?  The decidable shape of the recorded SPIR-V defect C01-spv-let-of-variable-indexed-late:
// the access is emitted as an OpAccessChain on the variable itself, so a store between the `let` and the access is seen.
func hasLetSnapshot(m *wmodule) bool {
	snaps := map[string]bool{}
	var ws func(l []*wstmt)
	var wst func(st *wstmt)
	wst = func(st *wstmt) {
		if st == nil {
			return
		}
		if st.k == "let" && st.e != nil && st.e.k == "var" && st.e.ty != nil && (st.e.ty.k == "arr" || st.e.ty.k == "vec" || st.e.ty.k == "mat") {
			snaps[st.name] = true
		}
		wst(st.init)
		wst(st.upd)
		ws(st.body)
		ws(st.els)
		for _, cs := range st.cases {
			ws(cs.body)
		}
	}
	ws = func(l []*wstmt) {
		for _, st := range l {
			wst(st)
		}
	}
	for _, fn := range m.funcs {
		ws(fn.body)
	}
	if m.entry != nil {
		ws(m.entry.body)
	}
	if len(snaps) == 0 {
		return false
	}
	found := false
	walkModuleExprs(m, func(e *wexpr) {
		if e.k == "idx" && len(e.args) == 2 && e.args[0].k == "var" && snaps[e.args[0].name] {
			found = true
		}
	})
	return found
}

// hasOpInit: does a private global have an operator expression as initialiser (`var<private> g: i32 = 3i * 4i;`)?  The
// decidable shape of the recorded MSL / GLSL defect: such an initialiser is left unevaluated.
func hasOpInit(m *wmodule) bool {
	for _, g := range m.globals {
		if g.space == "private" && g.init != nil && g.init.k == "bin" {
			return true
		}
	}
	return false
}

// hasPackOperand: is a pack4xU8 / pack4xU8Clamp call a direct operand of an operator (binary, unary, comparison)?  The
// decidable shape of the recorded HLSL / GLSL defect: the expansion is an unparenthesised `|` chain.
func hasPackOperand(m *wmodule) bool {
	found := false
	walkModuleExprs(m, func(e *wexpr) {
		// anything but an argument position of a call / constructor (there the chain is delimited by `,` / `)`)
		if e.k == "call" || e.k == "callfn" || e.k == "cons" {
			return
		}
		for _, a := range e.args {
			if a.k == "call" && (a.name == "pack4xU8" || a.name == "pack4xU8Clamp") {
				found = true
			}
		}
	})
	// … and the right-hand side of a compound assignment (`x ^= pack4xU8(v)` is written `x = x ^ <chain>`)
	return found || packCompoundRe.MatchString(m.wgsl())
}

var packCompoundRe = regexp.MustCompile(`(\+|-|\*|/|%|&|\||\^|<<|>>)= pack4xU8`)
