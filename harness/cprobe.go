package main

// cprobe: exhaustive operator × kind × shape probes through the real HLSL / MSL / GLSL back ends.
// Each probe is a one-operator program `var a = …; var b = …; var r = a OP b;`; the expression the
// back end wrote for `r` is parsed by cparse and printed as a Lean `PE` term (Naga.Model.CEmit) over
// the operands (arg 0 = a, arg 1 = b), with vector type names normalised to their scalar type.  The
// helper functions the text defines (naga_div, naga_mod, naga_neg, naga_abs, …) are printed the same
// way, their parameters being arg 0, arg 1 and their local declarations `loc k`.

import (
	"fmt"
	"regexp"
	"sort"
	"strings"

	"github.com/gogpu/naga/glsl"
	"github.com/gogpu/naga/hlsl"
	"github.com/gogpu/naga/msl"
)

// ---- a tiny S-expression reader for cparse output -------------------------------------------

type snode struct {
	atom string
	kids []*snode
	list bool
}

func sparse(s string) *snode {
	pos := 0
	var rd func() *snode
	rd = func() *snode {
		for pos < len(s) && (s[pos] == ' ' || s[pos] == '\n') {
			pos++
		}
		if pos >= len(s) {
			return nil
		}
		if s[pos] == '(' {
			pos++
			n := &snode{list: true}
			for {
				for pos < len(s) && s[pos] == ' ' {
					pos++
				}
				if pos >= len(s) {
					return n
				}
				if s[pos] == ')' {
					pos++
					return n
				}
				n.kids = append(n.kids, rd())
			}
		}
		if s[pos] == '"' {
			pos++
			var b strings.Builder
			for pos < len(s) && s[pos] != '"' {
				if s[pos] == '\\' && pos+1 < len(s) {
					pos++
				}
				b.WriteByte(s[pos])
				pos++
			}
			pos++
			return &snode{atom: b.String()}
		}
		st := pos
		for pos < len(s) && s[pos] != ' ' && s[pos] != '(' && s[pos] != ')' {
			pos++
		}
		return &snode{atom: s[st:pos]}
	}
	return rd()
}

func (n *snode) head() string {
	if n != nil && n.list && len(n.kids) > 0 && !n.kids[0].list {
		return n.kids[0].atom
	}
	return ""
}

// ---- PE printing ----------------------------------------------------------------------------

var cTypeScalar = regexp.MustCompile(`^(metal::)?(packed_)?(bool|int|uint|float)([2-4])?$`)

func scalarOfTypeName(name string) string {
	if m := cTypeScalar.FindStringSubmatch(name); m != nil {
		return m[3]
	}
	switch {
	case regexp.MustCompile(`^ivec[2-4]$`).MatchString(name):
		return "int"
	case regexp.MustCompile(`^uvec[2-4]$`).MatchString(name):
		return "uint"
	case regexp.MustCompile(`^bvec[2-4]$`).MatchString(name):
		return "bool"
	case regexp.MustCompile(`^vec[2-4]$`).MatchString(name):
		return "float"
	case name == "unsigned":
		return "uint"
	}
	return ""
}

func styLean(s string) string {
	switch s {
	case "int":
		return ".i32"
	case "uint":
		return ".u32"
	case "float":
		return ".f32"
	}
	return ".bool"
}

var cBinLean = map[string]string{"+": ".add", "-": ".sub", "*": ".mul", "/": ".div", "%": ".rem", "&": ".band", "|": ".bor", "^": ".bxor",
	"<<": ".shl", ">>": ".shr", "==": ".eq", "!=": ".ne", "<": ".lt", "<=": ".le", ">": ".gt", ">=": ".ge", "&&": ".land", "||": ".lor"}
var cUnLean = map[string]string{"-": ".neg", "+": ".plus", "~": ".bnot", "!": ".lnot"}

var cBitcastFns = map[string]string{"asint": "int", "asuint": "uint", "asfloat": "float", "floatBitsToInt": "int", "floatBitsToUint": "uint",
	"intBitsToFloat": "float", "uintBitsToFloat": "float"}

type peEnv struct {
	args   map[string]int // identifier -> operand index
	locals map[string]int
	err    string
}

func (e *peEnv) pe(n *snode) string {
	if n == nil {
		e.err = "nil"
		return "(.arg 99)"
	}
	switch n.head() {
	case "paren":
		return e.pe(n.kids[1])
	case "int":
		return fmt.Sprintf("(.lit .i32 %s)", n.kids[1].atom)
	case "uint":
		return fmt.Sprintf("(.lit .u32 %s)", n.kids[1].atom)
	case "float":
		return fmt.Sprintf("(.lit .f32 %s)", n.kids[1].atom)
	case "bool":
		return fmt.Sprintf("(.lit .bool %s)", n.kids[1].atom)
	case "id":
		if i, ok := e.args[n.kids[1].atom]; ok {
			return fmt.Sprintf("(.arg %d)", i)
		}
		if i, ok := e.locals[n.kids[1].atom]; ok {
			return fmt.Sprintf("(.loc %d)", i)
		}
		e.err = "free identifier " + n.kids[1].atom
		return "(.arg 99)"
	case "un":
		if l, ok := cUnLean[n.kids[1].atom]; ok {
			return fmt.Sprintf("(.un %s %s)", l, e.pe(n.kids[2]))
		}
	case "bin":
		if l, ok := cBinLean[n.kids[1].atom]; ok {
			return fmt.Sprintf("(.bin %s %s %s)", l, e.pe(n.kids[2]), e.pe(n.kids[3]))
		}
	case "tern":
		return fmt.Sprintf("(.tern %s %s %s)", e.pe(n.kids[1]), e.pe(n.kids[2]), e.pe(n.kids[3]))
	case "cast":
		if s := scalarOfTypeName(n.kids[1].kids[1].atom); s != "" && n.kids[1].head() == "ty" {
			return fmt.Sprintf("(.cast %s %s)", styLean(s), e.pe(n.kids[2]))
		}
	case "tcall":
		s := ""
		if n.kids[2].head() == "ty" {
			s = scalarOfTypeName(n.kids[2].kids[1].atom)
		}
		if s != "" && len(n.kids) == 4 {
			switch strings.TrimPrefix(n.kids[1].atom, "metal::") {
			case "as_type":
				return fmt.Sprintf("(.bits %s %s)", styLean(s), e.pe(n.kids[3]))
			case "static_cast":
				return fmt.Sprintf("(.cast %s %s)", styLean(s), e.pe(n.kids[3]))
			}
		}
	case "mem":
		// splat by swizzle: (x).xxx  — a vector shape detail, dropped by the scalar normalisation
		if regexp.MustCompile(`^x+$`).MatchString(n.kids[2].atom) {
			return e.pe(n.kids[1])
		}
	case "call":
		name := strings.TrimPrefix(n.kids[1].atom, "metal::")
		as := n.kids[2:]
		if s := scalarOfTypeName(n.kids[1].atom); s != "" {
			if len(as) == 1 {
				return fmt.Sprintf("(.cast %s %s)", styLean(s), e.pe(as[0]))
			}
			// vector constructor of equal scalars: normalised to its first component
			return fmt.Sprintf("(.cast %s %s)", styLean(s), e.pe(as[0]))
		}
		if t, ok := cBitcastFns[name]; ok && len(as) == 1 {
			return fmt.Sprintf("(.bits %s %s)", styLean(t), e.pe(as[0]))
		}
		switch len(as) {
		case 1:
			return fmt.Sprintf("(.call1 %s %s)", q(name), e.pe(as[0]))
		case 2:
			return fmt.Sprintf("(.call2 %s %s %s)", q(name), e.pe(as[0]), e.pe(as[1]))
		case 3:
			return fmt.Sprintf("(.call3 %s %s %s %s)", q(name), e.pe(as[0]), e.pe(as[1]), e.pe(as[2]))
		}
	}
	e.err = "unsupported form " + n.head()
	return "(.arg 99)"
}

// findFunc returns the (func …) node with the given name and parameter count (first match), or the entry.
func funcsOf(u *snode) []*snode {
	var out []*snode
	for _, k := range u.kids[1:] {
		if k.head() == "func" {
			out = append(out, k)
		}
	}
	return out
}

// stmtsOf flattens nested blocks.
func stmtsOf(b *snode) []*snode {
	var out []*snode
	for _, k := range b.kids[1:] {
		if k.head() == "block" {
			out = append(out, stmtsOf(k)...)
		} else {
			out = append(out, k)
		}
	}
	return out
}

// probePattern: the PE of the initialiser/assignment of `r` in the entry function.
func probePattern(unit string) (string, string) {
	u := sparse(unit)
	fs := funcsOf(u)
	if len(fs) == 0 {
		return "", "no function"
	}
	entry := fs[len(fs)-1]
	env := &peEnv{args: map[string]int{}, locals: map[string]int{}}
	var pat string
	rname := regexp.MustCompile(`^r_?$`)
	for _, st := range stmtsOf(entry.kids[5]) {
		switch st.head() {
		case "decl":
			name := st.kids[3].atom
			if len(st.kids) >= 5 {
				init := st.kids[4]
				for init.head() == "paren" {
					init = init.kids[1]
				}
				if init.head() == "id" {
					switch strings.TrimSuffix(init.kids[1].atom, "_") {
					case "a":
						env.args[name] = 0
						continue
					case "b":
						env.args[name] = 1
						continue
					}
				}
				if rname.MatchString(name) && st.kids[4].head() != "init" && st.kids[4].head() != "cast" {
					pat = env.pe(st.kids[4])
				}
			}
		case "expr":
			e := st.kids[1]
			if e.head() == "asg" && e.kids[1].atom == "=" && e.kids[2].head() == "id" && rname.MatchString(e.kids[2].kids[1].atom) {
				pat = env.pe(e.kids[3])
			}
		}
	}
	if pat == "" {
		return "", "no assignment to r"
	}
	return pat, env.err
}

// helperBodies: name, kind of first parameter, vector size, body as PE (params = args, decls = locals).
type helperPE struct {
	name, kind string
	n          int
	body       string
	err        string
}

func vecSizeOfTypeName(name string) int {
	if m := regexp.MustCompile(`([2-4])$`).FindStringSubmatch(name); m != nil && scalarOfTypeName(name) != "" {
		return int(m[1][0] - '0')
	}
	return 1
}

func helperBodies(unit string) []helperPE {
	u := sparse(unit)
	var out []helperPE
	for _, f := range funcsOf(u) {
		name := f.kids[3].atom
		if !strings.HasPrefix(name, "naga_") && !strings.HasPrefix(name, "_naga_") {
			continue
		}
		ps := f.kids[4].kids
		if len(ps) == 0 {
			continue
		}
		env := &peEnv{args: map[string]int{}, locals: map[string]int{}}
		kind := ""
		n := 1
		for i, p := range ps {
			env.args[p.kids[3].atom] = i
			if i == 0 && p.kids[2].head() == "ty" {
				kind = scalarOfTypeName(p.kids[2].kids[1].atom)
				n = vecSizeOfTypeName(p.kids[2].kids[1].atom)
			}
		}
		// body: decls then a return
		var lets []string
		body := ""
		for _, st := range stmtsOf(f.kids[5]) {
			switch st.head() {
			case "decl":
				if len(st.kids) >= 5 {
					lets = append(lets, env.pe(st.kids[4]))
					env.locals[st.kids[3].atom] = len(lets) - 1
				} else {
					env.err = "declaration without initialiser"
				}
			case "return":
				if len(st.kids) == 2 {
					body = env.pe(st.kids[1])
				}
			default:
				env.err = "statement " + st.head()
			}
		}
		for i := len(lets) - 1; i >= 0; i-- {
			body = fmt.Sprintf("(.letE %s %s)", lets[i], body)
		}
		out = append(out, helperPE{name, kind, n, body, env.err})
	}
	return out
}

// ---- the probe sets -------------------------------------------------------------------------

type cOptSet struct {
	tag     string
	compile func(src string) (string, string)
}

func cOptionSets(dialect string, tier string) []cOptSet {
	var out []cOptSet
	fe := func(src string) (interface{}, string) { return nil, "" }
	_ = fe
	switch dialect {
	case "hlsl":
		sms := []hlsl.ShaderModel{hlsl.ShaderModel5_1, hlsl.ShaderModel6_0}
		for _, sm := range sms {
			for _, ri := range []bool{true, false} {
				sm, ri := sm, ri
				out = append(out, cOptSet{fmt.Sprintf("sm=%d restrict=%v", sm, ri), func(src string) (string, string) {
					m, _ := frontEnd(src)
					if m == nil {
						return "", "front end"
					}
					o := hlsl.DefaultOptions()
					o.ShaderModel = sm
					o.RestrictIndexing = ri
					var t string
					r := guard("hlsl", func() error { s, _, err := hlsl.Compile(m, o); t = s; return err })
					return t, r.err
				}})
			}
		}
	case "msl":
		for _, v := range []msl.Version{msl.Version1_2, msl.Version2_1, msl.Version3_1} {
			for _, pol := range []msl.BoundsCheckPolicy{msl.BoundsCheckUnchecked, msl.BoundsCheckReadZeroSkipWrite} {
				v, pol := v, pol
				out = append(out, cOptSet{fmt.Sprintf("v%d.%d policy=%s", v.Major, v.Minor, polName(pol)), func(src string) (string, string) {
					m, _ := frontEnd(src)
					if m == nil {
						return "", "front end"
					}
					o := msl.DefaultOptions()
					o.LangVersion = v
					o.BoundsCheckPolicies.Index = pol
					o.BoundsCheckPolicies.Buffer = pol
					var t string
					r := guard("msl", func() error { s, _, err := msl.Compile(m, o); t = s; return err })
					return t, r.err
				}})
			}
		}
	case "glsl":
		for _, v := range []glsl.Version{glsl.Version430, glsl.Version460, glsl.VersionES310, glsl.VersionES320} {
			v := v
			out = append(out, cOptSet{fmt.Sprintf("v%d%02d es=%v", v.Major, v.Minor, v.ES), func(src string) (string, string) {
				m, _ := frontEnd(src)
				if m == nil {
					return "", "front end"
				}
				var t string
				r := guard("glsl", func() error {
					s, _, err := glsl.Compile(m, glsl.Options{LangVersion: v, EntryPoint: "main"})
					t = s
					return err
				})
				return t, r.err
			}})
		}
	}
	if tier != "thorough" && len(out) > 2 {
		out = out[:2]
	}
	return out
}

var cOpCodes = map[string]int{"+": 0, "-": 1, "*": 2, "/": 3, "%": 4, "&": 5, "|": 6, "^": 7, "<<": 8, ">>": 9, "==": 10, "!=": 11, "<": 12, "<=": 13, ">": 14, ">=": 15,
	"neg": 20, "bnot": 21, "lnot": 22, "abs": 30, "min": 31, "max": 32, "select": 33}
var cKindCodes = map[string]int{"i32": 0, "u32": 1, "f32": 2, "bool": 3}
var cDialectCodes = map[string]int{"hlsl": 0, "msl": 1, "glsl": 2}

func cmdCProbe(c *ctx) {
	type binop struct {
		op    string
		kinds []string
		res   string
		rhsU  bool
	}
	ops := []binop{
		{"+", []string{"i32", "u32", "f32"}, "", false}, {"-", []string{"i32", "u32", "f32"}, "", false},
		{"*", []string{"i32", "u32", "f32"}, "", false}, {"/", []string{"i32", "u32", "f32"}, "", false},
		{"%", []string{"i32", "u32"}, "", false},
		{"&", []string{"i32", "u32", "bool"}, "", false}, {"|", []string{"i32", "u32", "bool"}, "", false},
		{"^", []string{"i32", "u32"}, "", false},
		{"<<", []string{"i32", "u32"}, "", true}, {">>", []string{"i32", "u32"}, "", true},
		{"==", []string{"i32", "u32", "f32", "bool"}, "bool", false}, {"!=", []string{"i32", "u32", "f32", "bool"}, "bool", false},
		{"<", []string{"i32", "u32", "f32"}, "bool", false}, {"<=", []string{"i32", "u32", "f32"}, "bool", false},
		{">", []string{"i32", "u32", "f32"}, "bool", false}, {">=", []string{"i32", "u32", "f32"}, "bool", false},
	}
	type unop struct {
		name  string
		expr  string // %s = operand a
		kinds []string
		res   string
	}
	unops := []unop{
		{"neg", "-a", []string{"i32", "f32"}, ""}, {"bnot", "~a", []string{"i32", "u32"}, ""}, {"lnot", "!a", []string{"bool"}, ""},
		{"abs", "abs(a)", []string{"i32", "u32"}, ""}, {"min", "min(a, b)", []string{"i32", "u32"}, ""}, {"max", "max(a, b)", []string{"i32", "u32"}, ""},
	}
	for _, dialect := range []string{"hlsl", "msl", "glsl"} {
		helpers := map[string]helperPE{}
		for _, os := range cOptionSets(dialect, c.tier) {
			emit := func(code int, kind string, n int, src string, label string) {
				text, cerr := os.compile(src)
				if cerr != "" {
					c.line("probe-errors.txt", q(dialect+" "+label+": "+cerr))
					c.count("probe-error")
					return
				}
				unit, perr := cparse(text)
				if perr != nil {
					c.line("probe-errors.txt", q(dialect+" "+label+": cparse: "+perr.Error()))
					c.count("probe-error")
					return
				}
				pat, e := probePattern(unit)
				if e != "" || pat == "" {
					c.line("probe-errors.txt", q(dialect+" "+label+": pattern: "+e))
					c.count("probe-error")
					return
				}
				c.line("patterns.txt", fmt.Sprintf("%d %d %d %d %s -- %s %s", cDialectCodes[dialect], code, cKindCodes[kind], n, pat, label, os.tag))
				c.count("probes")
				for _, h := range helperBodies(unit) {
					key := fmt.Sprintf("%s/%s/%d", h.name, h.kind, h.n)
					if old, ok := helpers[key]; ok && old.body != h.body {
						c.line("probe-errors.txt", q(dialect+" helper "+key+" differs between programs"))
						c.count("probe-error")
					}
					helpers[key] = h
				}
			}
			for _, o := range ops {
				for _, k := range o.kinds {
					for _, n := range []int{1, 3} {
						tb := k
						if o.rhsU {
							tb = "u32"
						}
						tr := k
						if o.res != "" {
							tr = o.res
						}
						if k == "bool" && n > 1 && (o.op == "==" || o.op == "!=") {
							continue
						}
						emit(cOpCodes[o.op], k, n, probeProgram(k, n, tb, n, tr, n, "a "+o.op+" b"), fmt.Sprintf("%s %s x%d", o.op, k, n))
					}
				}
			}
			for _, o := range unops {
				for _, k := range o.kinds {
					for _, n := range []int{1, 3} {
						emit(cOpCodes[o.name], k, n, probeProgram(k, n, k, n, k, n, o.expr), fmt.Sprintf("%s %s x%d", o.name, k, n))
					}
				}
			}
		}
		keys := make([]string, 0, len(helpers))
		for k := range helpers {
			keys = append(keys, k)
		}
		sort.Strings(keys)
		for _, k := range keys {
			h := helpers[k]
			if h.err != "" {
				c.line("probe-errors.txt", q(dialect+" helper "+k+": "+h.err))
				c.count("probe-error")
				continue
			}
			c.line("helpers.txt", fmt.Sprintf("%d %s %d %d %s", cDialectCodes[dialect], q(h.name), cKindCodes[map[string]string{"int": "i32", "uint": "u32", "float": "f32", "bool": "bool"}[h.kind]], h.n, h.body))
			c.count("helpers")
		}
	}
}

func init() { commands["cprobe"] = cmdCProbe }
