package main

import "math"

func mathFloat32bits(f float32) uint32 { return math.Float32bits(f) }
func mathFloat64bits(f float64) uint64 { return math.Float64bits(f) }
