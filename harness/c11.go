package main

// C11 — diagnosed classes of invalid programs are always rejected, at the right place.
//   c11swz   : exhaustive swizzle probes (all names of length 1-4 over x y z w r g b a s q, vector widths 2-4).
//   c11      : rule-breaking edits applied at random syntactic sites of generated valid programs; the program
//              must be rejected by parse/lower(/validate), no back end output may be produced, and the
//              reported line:column must lie where the property says.

import (
	"fmt"
	"regexp"
	"strings"

	"github.com/gogpu/naga"
)

func cmdC11Swz(c *ctx) {
	letters := "xyzwrgbasq"
	var names []string
	var gen func(prefix string, n int)
	gen = func(prefix string, n int) {
		if n == 0 {
			names = append(names, prefix)
			return
		}
		for _, ch := range letters {
			gen(prefix+string(ch), n-1)
		}
	}
	maxLen := 3
	if c.tier == "thorough" {
		maxLen = 4
	}
	for n := 1; n <= maxLen; n++ {
		gen("", n)
	}
	names = append(names, "xyzwx", "xxxxx", "rgbar")
	for _, w := range []int{2, 3, 4} {
		comps := []string{"1u", "2u", "3u", "4u"}[:w]
		for _, nm := range names {
			src := fmt.Sprintf("@group(0) @binding(1) var<storage, read_write> outp: array<u32>;\n@compute @workgroup_size(1)\nfn main() {\n  let v = vec%d<u32>(%s);\n  let s = v.%s;\n}\n", w, strings.Join(comps, ", "), nm)
			mod, res := frontEnd(src)
			verdict := "accept"
			if mod == nil {
				verdict = "reject"
			} else if len(res) > 1 && res[1].err != "" {
				verdict = "reject"
			}
			c.line("cases.txt", fmt.Sprintf("(swz %s %d)", nm, w))
			c.line("impl.txt", verdict)
			c.count("swizzle-probes")
		}
	}
}

type c11Edit struct {
	rule   string
	apply  func(c *ctx, m *wmodule) (marker string, ok bool) // AST edit; marker = text to locate the site
	textEd func(c *ctx, src string) (out string, expectLine, expectCol int, ok bool)
}

var rePos = regexp.MustCompile(`(?:line (\d+), column (\d+))|(?:(\d+):(\d+))`)

func lineCol(src string, off int) (int, int) {
	line, col := 1, 1
	for i, ch := range src {
		if i >= off {
			break
		}
		if ch == '\n' {
			line++
			col = 1
		} else {
			col++
		}
	}
	return line, col
}

// declRange: first and last line of the module-scope declaration containing line `ln`.
func declRange(src string, ln int) (int, int) {
	lines := strings.Split(src, "\n")
	start := ln
	for start > 1 {
		l := lines[start-1]
		if len(l) > 0 && l[0] != ' ' && l[0] != '}' {
			break
		}
		start--
	}
	// an entry point's attribute line belongs to the declaration
	if start > 1 && strings.HasPrefix(lines[start-2], "@") && strings.HasPrefix(lines[start-1], "fn ") {
		start--
	}
	end := ln
	if strings.HasPrefix(lines[start-1], "fn ") || strings.HasPrefix(lines[start-1], "@compute") || strings.HasPrefix(lines[start-1], "struct") {
		for end < len(lines) && !(len(lines[end-1]) > 0 && lines[end-1][0] == '}') {
			end++
		}
	}
	return start, end
}

func randSlot(c *ctx, m *wmodule, pred func(e *wexpr) bool) **wexpr {
	var cands []**wexpr
	for _, p := range m.exprSlots() {
		if pred(*p) {
			cands = append(cands, p)
		}
	}
	if len(cands) == 0 {
		return nil
	}
	return cands[c.rng.Intn(len(cands))]
}

func insertStmt(c *ctx, m *wmodule, s *wstmt) {
	ls := m.stmtLists()
	l := ls[c.rng.Intn(len(ls))]
	pos := c.rng.Intn(len(*l) + 1)
	// never after a jump (unreachable code is fine in WGSL, but keep the site simple)
	*l = append(append(append([]*wstmt{}, (*l)[:pos]...), s), (*l)[pos:]...)
}

var c11Edits = []c11Edit{
	{rule: "undeclared-identifier", apply: func(c *ctx, m *wmodule) (string, bool) {
		p := randSlot(c, m, func(e *wexpr) bool { return e.ty != nil && e.ty.isScalar() && e.k != "addr" })
		if p == nil {
			return "", false
		}
		*p = &wexpr{k: "var", ty: (*p).ty, name: "undeclared_zz"}
		return "undeclared_zz", true
	}},
	{rule: "undeclared-function", apply: func(c *ctx, m *wmodule) (string, bool) {
		p := randSlot(c, m, func(e *wexpr) bool { return e.ty != nil && e.ty.isScalar() })
		if p == nil {
			return "", false
		}
		*p = &wexpr{k: "callfn", ty: (*p).ty, name: "nofn_zz", args: []*wexpr{zeroOf(tU32)}}
		return "nofn_zz", true
	}},
	{rule: "undeclared-type", apply: func(c *ctx, m *wmodule) (string, bool) {
		insertStmt(c, m, &wstmt{k: "raw", name: "var zz_t: NoType_zz;"})
		return "NoType_zz", true
	}},
	{rule: "undeclared-type-texture-prefix", apply: func(c *ctx, m *wmodule) (string, bool) {
		// a type name that merely starts like the predeclared texture types
		n := c.pick("texture_zz", "texture_2d_zz", "texturezz")
		insertStmt(c, m, &wstmt{k: "raw", name: c.pick("var zz_t: "+n+";", "let zz_t: "+n+" = 1u;")})
		return n, true
	}},
	{rule: "undeclared-identifier-array-size", apply: func(c *ctx, m *wmodule) (string, bool) {
		insertStmt(c, m, &wstmt{k: "raw", name: "var zz_a: array<u32, undeclared_zz>;"})
		return "undeclared_zz", true
	}},
	{rule: "const-assert-false-later-constant", apply: func(c *ctx, m *wmodule) (string, bool) {
		// the constant the assertion reads is declared after the function (module scope has no declaration order)
		insertStmt(c, m, &wstmt{k: "raw", name: "const_assert zz_later > 5u;"})
		m.consts = append(m.consts, &wstmt{k: "const", name: "zz_later", ty: tU32, e: &wexpr{k: "lit", ty: tU32, bits: 3, konst: true}})
		return "const_assert", true
	}},
	{rule: "call-arg-type-same-shape", apply: func(c *ctx, m *wmodule) (string, bool) {
		// an argument of the same shape but another component type: vec3<i32> for vec3<u32>, i32 for u32 (run-time values)
		p := randSlot(c, m, func(e *wexpr) bool {
			if e.k != "callfn" {
				return false
			}
			for _, a := range e.args {
				if a.ty != nil && a.ty.isInt() && a.k != "addr" {
					return true
				}
			}
			return false
		})
		if p == nil {
			return "", false
		}
		cp := **p
		cp.args = append([]*wexpr{}, cp.args...)
		for i, a := range cp.args {
			if a.ty != nil && a.ty.isInt() && a.k != "addr" {
				other := tI32
				if a.ty.scalarOf().k == "i32" {
					other = tU32
				}
				cp.args[i] = &wexpr{k: "bitcast", ty: a.ty.withScalar(other), args: []*wexpr{a}}
				break
			}
		}
		*p = &cp
		return cp.name + "(", true
	}},
	{rule: "undeclared-member", apply: func(c *ctx, m *wmodule) (string, bool) {
		p := randSlot(c, m, func(e *wexpr) bool { return e.k == "field" })
		if p == nil {
			return "", false
		}
		cp := **p
		cp.name = "nomember_zz"
		*p = &cp
		return "nomember_zz", true
	}},
	{rule: "call-arg-count", apply: func(c *ctx, m *wmodule) (string, bool) {
		p := randSlot(c, m, func(e *wexpr) bool { return e.k == "callfn" })
		if p == nil {
			return "", false
		}
		cp := **p
		if len(cp.args) > 0 && c.chance(0.5) {
			cp.args = cp.args[:len(cp.args)-1]
		} else {
			cp.args = append(append([]*wexpr{}, cp.args...), &wexpr{k: "lit", ty: tU32, bits: 77777, konst: true})
		}
		*p = &cp
		return cp.name + "(", true
	}},
	{rule: "call-arg-type", apply: func(c *ctx, m *wmodule) (string, bool) {
		p := randSlot(c, m, func(e *wexpr) bool {
			if e.k != "callfn" {
				return false
			}
			for _, a := range e.args {
				if a.ty != nil && a.ty.isInt() {
					return true
				}
			}
			return false
		})
		if p == nil {
			return "", false
		}
		cp := **p
		cp.args = append([]*wexpr{}, cp.args...)
		for i, a := range cp.args {
			if a.ty != nil && a.ty.isInt() {
				cp.args[i] = &wexpr{k: "lit", ty: tBool, bits: 1, konst: true}
				break
			}
		}
		*p = &cp
		return cp.name + "(", true
	}},
	{rule: "must-use-discarded", apply: func(c *ctx, m *wmodule) (string, bool) {
		// a dedicated @must_use function appended to the module (see render below) is called as a statement
		insertStmt(c, m, &wstmt{k: "raw", name: "mustuse_zz(3u);"})
		return "mustuse_zz(3u);", true
	}},
	{rule: "const-assert-false", apply: func(c *ctx, m *wmodule) (string, bool) {
		insertStmt(c, m, &wstmt{k: "raw", name: fmt.Sprintf("const_assert %du == %du;", 1+c.rng.Intn(5), 7+c.rng.Intn(5))})
		return "const_assert", true
	}},
	{rule: "array-size-nonpositive", apply: func(c *ctx, m *wmodule) (string, bool) {
		insertStmt(c, m, &wstmt{k: "raw", name: "var zz_a: array<u32, " + c.pick("0", "0u", "-1", "(3 - 3)", "(2 - 5)") + ">;"})
		return "zz_a", true
	}},
	{rule: "swizzle-invalid", apply: func(c *ctx, m *wmodule) (string, bool) {
		p := randSlot(c, m, func(e *wexpr) bool { return e.ty != nil && e.ty.isInt() && e.ty.isScalar() })
		if p == nil {
			return "", false
		}
		t := (*p).ty
		nm := c.pick("z", "w", "b")        // exceeds vec2
		rt := t
		if c.chance(0.5) {
			nm = c.pick("xg", "ry", "xr") // mixes the two namespaces
			rt = tVec(2, t)
			_ = rt
			// keep the scalar type of the slot: take .x of the bad swizzle
			*p = &wexpr{k: "swz", ty: t, name: "x", args: []*wexpr{{k: "swz", ty: tVec(2, t), name: nm, args: []*wexpr{{k: "cons", ty: tVec(2, t), args: []*wexpr{zeroOf(t), zeroOf(t)}}}}}}
			return "." + nm, true
		}
		*p = &wexpr{k: "swz", ty: t, name: nm, args: []*wexpr{{k: "cons", ty: tVec(2, t), args: []*wexpr{zeroOf(t), zeroOf(t)}}}}
		return "." + nm, true
	}},
	{rule: "swizzle-invalid-store", apply: func(c *ctx, m *wmodule) (string, bool) {
		// component beyond the vector width used as a store target / compound target / increment
		st := c.pick("zz_v.z = 3u;", "zz_v.w = 3u;", "zz_v.b += 1u;", "zz_v.z++;", "zz_v.a -= 2u;")
		insertStmt(c, m, &wstmt{k: "raw", name: "{ var zz_v: vec2<u32> = vec2<u32>(1u, 2u); " + st + " }"})
		return "zz_v.", true
	}},
	{rule: "late-call-arg-count", apply: func(c *ctx, m *wmodule) (string, bool) {
		// a helper declared AFTER every caller (appended to the source, see cmdC11) is called with the wrong arity
		p := randSlot(c, m, func(e *wexpr) bool { return e.ty != nil && e.ty.k == "u32" && e.k != "lit" })
		if p == nil {
			return "", false
		}
		args := c.pick("late_zz()", "late_zz(1u, 2u, 3u)", "late_zz(1u)")
		*p = &wexpr{k: "var", ty: tU32, name: args}
		return "late_zz(", true
	}},
	{rule: "late-call-arg-type", apply: func(c *ctx, m *wmodule) (string, bool) {
		p := randSlot(c, m, func(e *wexpr) bool { return e.ty != nil && e.ty.k == "u32" && e.k != "lit" })
		if p == nil {
			return "", false
		}
		// run-time arguments of the wrong type (and, rarely, typed literals: recorded finding — they are coerced)
		*p = &wexpr{k: "var", ty: tU32, name: c.pick("late_zz(bitcast<i32>(inp[0u]), 2u)", "late_zz(1u, f32(inp[1u]))", "late_zz((inp[2u] == 1u), 2u)",
			"late_zz(1u, vec2<u32>(inp[3u], 1u))", "late_zz(inp[4u], bitcast<i32>(inp[5u]))", "late_zz(1u, 2i)")}
		return "late_zz(", true
	}},
	{rule: "const-division-by-zero", apply: func(c *ctx, m *wmodule) (string, bool) {
		// module-scope and function-scope constant declarations
		if c.chance(0.5) {
			m.consts = append(m.consts, &wstmt{k: "const", name: "zz_dz", ty: tI32, e: &wexpr{k: "bin", ty: tI32, op: c.pick("/", "%"), args: []*wexpr{{k: "lit", ty: tI32, bits: 7, konst: true}, {k: "lit", ty: tI32, bits: 0, konst: true}}}})
			return "zz_dz", true
		}
		insertStmt(c, m, &wstmt{k: "raw", name: "const zz_dz: u32 = 7u " + c.pick("/", "%") + " 0u;"})
		return "zz_dz", true
	}},
	{rule: "group-without-binding", textEd: func(c *ctx, src string) (string, int, int, bool) {
		i := strings.Index(src, "@group(0) @binding(1)")
		if i < 0 {
			return "", 0, 0, false
		}
		out := src[:i] + c.pick("@group(0)", "@binding(1)") + src[i+len("@group(0) @binding(1)"):]
		ln, _ := lineCol(src, i)
		return out, ln, 0, true
	}},
	{rule: "missing-workgroup-size", textEd: func(c *ctx, src string) (string, int, int, bool) {
		i := strings.Index(src, "@compute @workgroup_size(1)")
		if i < 0 {
			return "", 0, 0, false
		}
		ln, _ := lineCol(src, i)
		return src[:i] + "@compute" + src[i+len("@compute @workgroup_size(1)"):], ln, 0, true
	}},
	{rule: "missing-semicolon", textEd: func(c *ctx, src string) (string, int, int, bool) {
		re := regexp.MustCompile(`;\n\s*(let |var |const |if |for |while |loop |switch |return|break;|continue;|\})`)
		locs := re.FindAllStringSubmatchIndex(src, -1)
		if len(locs) == 0 {
			return "", 0, 0, false
		}
		l := locs[c.rng.Intn(len(locs))]
		out := src[:l[0]] + src[l[0]+1:]
		ln, col := lineCol(out, l[2]-1)
		return out, ln, col, true
	}},
	{rule: "extra-closing-paren", textEd: func(c *ctx, src string) (string, int, int, bool) {
		re := regexp.MustCompile(`\);\n`)
		locs := re.FindAllStringIndex(src, -1)
		if len(locs) == 0 {
			return "", 0, 0, false
		}
		l := locs[c.rng.Intn(len(locs))]
		out := src[:l[0]+1] + ")" + src[l[0]+1:]
		ln, col := lineCol(out, l[0]+1)
		return out, ln, col, true
	}},
	{rule: "missing-closing-delimiter", textEd: func(c *ctx, src string) (string, int, int, bool) {
		// delete one `)`, `]` or template-closing `>`: the delimiters no longer balance, whatever the site
		re := regexp.MustCompile(`\)|\]|(?:vec[234]|array|atomic|ptr|var|bitcast|mat[234]x[234])<[^<>;(){}]*(>)`)
		locs := re.FindAllStringSubmatchIndex(src, -1)
		if len(locs) == 0 {
			return "", 0, 0, false
		}
		l := locs[c.rng.Intn(len(locs))]
		at := l[0]
		if l[2] >= 0 {
			at = l[2] // the closing > of the template list
		}
		out := src[:at] + src[at+1:]
		ln, _ := lineCol(out, at)
		return out, ln, 0, true
	}},
	{rule: "missing-closing-brace", textEd: func(c *ctx, src string) (string, int, int, bool) {
		// the closing brace of a function that is followed by another declaration
		re := regexp.MustCompile(`\n\}\n(@compute|fn )`)
		locs := re.FindAllStringSubmatchIndex(src, -1)
		if len(locs) == 0 {
			return "", 0, 0, false
		}
		l := locs[c.rng.Intn(len(locs))]
		out := src[:l[0]+1] + src[l[0]+2:]
		ln, col := lineCol(out, l[2]-1)
		return out, ln, col, true
	}},
}

// isConstLike: built from literals and named constants only
func isConstLike(e *wexpr) bool {
	switch e.k {
	case "lit", "aint":
		return true
	case "var":
		return e.konst
	case "idx", "callfn", "deref", "addr", "arrlen", "field":
		return false
	}
	if len(e.args) == 0 {
		return e.konst
	}
	for _, a := range e.args {
		if !isConstLike(a) {
			return false
		}
	}
	return true
}

// editedOnlyInDeadRHS: every expression node that did not exist before the edit lies in the right operand of a
// short-circuit operator whose left operand decides the result at shader-creation time, so that naga never lowers the
// operand.  Decided syntactically when the left operand is built from literals and constants only; otherwise (a left
// operand such as `(K > K) && inp[0] != 0`, itself decided by short-circuit evaluation) decided against the real front
// end: with the left operands of all guarding operators replaced by a run-time value, the edited program must be rejected.
func editedOnlyInDeadRHS(m *wmodule, before map[*wexpr]bool, render func() string) bool {
	found, outside, syntactic := false, false, true
	var guards []*wexpr
	var walk func(e *wexpr, gs []*wexpr)
	walk = func(e *wexpr, gs []*wexpr) {
		if e == nil {
			return
		}
		if !before[e] {
			found = true
			if len(gs) == 0 {
				outside = true
			}
			dead := false
			for _, g := range gs {
				if isConstLike(g.args[0]) {
					dead = true
				}
			}
			if !dead {
				syntactic = false
			}
			guards = append(guards, gs...)
			return // a new subtree: judged at its root
		}
		for i, a := range e.args {
			g2 := gs
			if e.k == "bin" && (e.op == "&&" || e.op == "||") && i == 1 {
				g2 = append(append([]*wexpr{}, gs...), e)
			}
			walk(a, g2)
		}
	}
	var ws func(l []*wstmt)
	ws = func(l []*wstmt) {
		for _, st := range l {
			walk(st.e, nil)
			walk(st.brk, nil)
			if st.lhs != nil {
				for i := range st.lhs.args {
					if i > 0 { // index expressions inside lvalues (as in exprSlots)
						walk(st.lhs.args[i], nil)
					}
				}
			}
			if st.init != nil {
				walk(st.init.e, nil)
			}
			ws(st.body)
			ws(st.els)
			for _, cs := range st.cases {
				ws(cs.body)
			}
		}
	}
	for _, f := range m.funcs {
		ws(f.body)
	}
	ws(m.entry.body)
	if !found || outside {
		return false
	}
	if syntactic {
		return true
	}
	// empirical: make every guarding left operand a run-time value; the front end must now reject the program
	saved := make([]*wexpr, len(guards))
	for i, g := range guards {
		saved[i] = g.args[0]
	}
	for _, g := range guards {
		g.args[0] = &wexpr{k: "bin", ty: tBool, op: "==", args: []*wexpr{
			{k: "idx", ty: tU32, args: []*wexpr{{k: "var", ty: tArr(0, tU32), name: "inp"}, {k: "lit", ty: tU32, bits: 0, konst: true}}},
			{k: "lit", ty: tU32, bits: 4242, konst: true}}}
	}
	mod, _ := frontEnd(render())
	for i := len(guards) - 1; i >= 0; i-- {
		guards[i].args[0] = saved[i]
	}
	return mod == nil
}

func cmdC11(c *ctx) {
	for i := 0; i < c.n; i++ {
		o := defaultGenOpts(c)
		setKnob(&o, "clean")
		o.structs = true
		if o.helpers == 0 {
			o.helpers = 1 + c.rng.Intn(2)
		}
		m, _ := genModule(c, o)
		ed := c11Edits[c.rng.Intn(len(c11Edits))]
		mustUse := "@must_use\nfn mustuse_zz(a: u32) -> u32 {\n  return a + 1u;\n}\n"
		var src string
		expLine, expCol := 0, 0
		marker := ""
		site := ""
		if ed.apply != nil {
			before := map[*wexpr]bool{}
			for _, p := range m.exprSlots() {
				before[*p] = true
			}
			mk, ok := ed.apply(c, m)
			if !ok {
				c.count("edit-not-applicable:" + ed.rule)
				continue
			}
			marker = mk
			if editedOnlyInDeadRHS(m, before, func() string {
				return mustUse + m.wgsl() + "fn late_zz(a: u32, b: u32) -> u32 {\n  return a + b;\n}\n"
			}) {
				// the rule is broken only inside the right operand of && / || whose left operand is a constant expression
				site = " site=short-circuit-rhs"
				c.count("site:short-circuit-rhs")
			}
			src = mustUse + m.wgsl() + "fn late_zz(a: u32, b: u32) -> u32 {\n  return a + b;\n}\n"
		} else {
			valid := mustUse + m.wgsl() + "fn late_zz(a: u32, b: u32) -> u32 {\n  return a + b;\n}\n"
			out, ln, col, ok := ed.textEd(c, valid)
			if !ok {
				c.count("edit-not-applicable:" + ed.rule)
				continue
			}
			src, expLine, expCol = out, ln, col
		}
		c.count("edits:" + ed.rule)
		// expected location
		lo, hi := 0, 0
		var ranges [][2]int
		if marker != "" {
			from := 0
			for {
				off := strings.Index(src[from:], marker)
				if off < 0 {
					break
				}
				off += from
				from = off + len(marker)
				if off >= 3 && src[off-3:off] == "fn " {
					continue // the definition, not a use
				}
				ln, _ := lineCol(src, off)
				a, b := declRange(src, ln)
				ranges = append(ranges, [2]int{a, b})
			}
			if len(ranges) == 0 {
				c.count("marker-lost")
				continue
			}
			lo, hi = ranges[0][0], ranges[0][1]
		} else if expCol == 0 {
			lo, hi = declRange(src, expLine)
			ranges = [][2]int{{lo, hi}}
		}
		// run the front end and, if it accepts, the one-call compile
		mod, res := frontEnd(src)
		verdict := "rejected"
		msg := ""
		if mod != nil && (len(res) < 2 || res[1].err == "") {
			verdict = "ACCEPTED"
			var outBytes []byte
			r := guard("compile", func() error { b, err := naga.Compile(src); outBytes = b; return err })
			if r.err == "" && len(outBytes) > 0 {
				verdict = "ACCEPTED-AND-COMPILED"
			}
		} else {
			for _, r := range res {
				if r.err != "" {
					msg = r.err
					break
				}
			}
		}
		pos := "nopos"
		if mt := rePos.FindStringSubmatch(msg); mt != nil {
			if mt[1] != "" {
				pos = mt[1] + ":" + mt[2]
			} else {
				pos = mt[3] + ":" + mt[4]
			}
		}
		where := "n/a"
		if verdict == "rejected" {
			var ln, col int
			fmt.Sscanf(pos, "%d:%d", &ln, &col)
			nlines := strings.Count(src, "\n") + 1
			switch {
			case pos == "nopos":
				where = "no-position"
			case ln < 1 || ln > nlines:
				where = "outside-source"
			case expCol > 0: // syntax error: exact token
				if ln == expLine && col == expCol {
					where = "exact"
				} else {
					where = fmt.Sprintf("expected-%d:%d", expLine, expCol)
				}
			default:
				inAny := false
				for _, r := range ranges {
					if ln >= r[0] && ln <= r[1] {
						inAny = true
					}
				}
				if inAny {
					where = "in-declaration"
				} else {
					where = fmt.Sprintf("outside-declaration[%d-%d]", lo, hi)
				}
			}
		}
		c.line("cases.txt", fmt.Sprintf("(c11 %s%s)", ed.rule, site))
		c.line("impl.txt", fmt.Sprintf("%s %s %s | %s", verdict, pos, where, oneLine(msg)))
		c.line("src.txt", q(src))
	}
}

func init() { commands["c11swz"] = cmdC11Swz; commands["c11"] = cmdC11 }
