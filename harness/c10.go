package main

// C10 — no input makes the compiler panic, crash, hang or exhaust memory.
// `vh c10 -n N [-skip K]`: generates N inputs from the seed (arbitrary bytes, token- and tree-level mutations of valid
// programs, deep nesting, long constructs, huge literals and array sizes) and drives every public entry point on each,
// one after the other, in this process.  Before each input it prints `BEGIN i class` and flushes, after it `END i
// verdict ms`; a recovered panic is a verdict.  The supervising check runs this under a wall-clock and address-space
// limit: if the process dies or stalls, the last BEGIN line names the input (inputs.txt holds them, quoted).

import (
	"syscall"
	"bufio"
	"fmt"
	"os"
	"strings"
	"time"

	"github.com/gogpu/naga"
	"github.com/gogpu/naga/dxil"
	"github.com/gogpu/naga/glsl"
	"github.com/gogpu/naga/hlsl"
	"github.com/gogpu/naga/msl"
	"github.com/gogpu/naga/spirv"
	"github.com/gogpu/naga/wgsl"
)

func c10Input(c *ctx, i int, valid []string) (class string, src string) {
	rep := func(s string, n int) string { return strings.Repeat(s, n) }
	wrap := func(body string) string {
		return "@group(0) @binding(0) var<storage, read_write> o: array<u32>;\n@compute @workgroup_size(1)\nfn main() {\n" + body + "\n}\n"
	}
	// the property's scope is sources of at most 64 KiB: nesting depths are cut to fit
	fit := func(d, unit int) int { return min(d, 64000/unit) }
	switch i % 12 {
	case 0: // arbitrary bytes
		n := c.rng.Intn(300)
		if c.chance(0.05) {
			n = c.rng.Intn(65536)
		}
		b := make([]byte, n)
		for j := range b {
			b[j] = byte(c.rng.Intn(256))
		}
		return "bytes", string(b)
	case 1: // printable soup of WGSL tokens
		toks := []string{"fn", "var", "let", "const", "(", ")", "{", "}", "[", "]", "<", ">", ";", ",", ":", "->", "@", "+", "-", "*", "/", "%", "&&", "||", "=", "==",
			"u32", "i32", "f32", "vec4", "array", "struct", "if", "else", "loop", "for", "while", "switch", "case", "default", "return", "break", "continue", "x", "y", "main",
			"1", "2u", "3.0", "0x", "1e999", "true", "@compute", "@workgroup_size", "override", "alias", "ptr", "function", "&", "|", "^", "!", "~", ".", "_", "atomic"}
		var sb strings.Builder
		for j, n := 0, c.rng.Intn(200); j < n; j++ {
			sb.WriteString(toks[c.rng.Intn(len(toks))])
			sb.WriteByte(" \n\t"[c.rng.Intn(3)])
		}
		return "token-soup", sb.String()
	case 2, 3: // byte/token mutation of a valid program
		s := valid[c.rng.Intn(len(valid))]
		b := []byte(s)
		for k, nm := 0, 1+c.rng.Intn(4); k < nm && len(b) > 4; k++ {
			p := c.rng.Intn(len(b))
			switch c.rng.Intn(5) {
			case 0:
				b = append(b[:p], b[p+1:]...)
			case 1:
				b[p] = byte(c.rng.Intn(256))
			case 2:
				q := p + c.rng.Intn(len(b)-p)
				b = append(b[:p], b[q:]...)
			case 3:
				q := p + c.rng.Intn(min(40, len(b)-p))
				b = append(append(append([]byte{}, b[:q]...), b[p:q]...), b[q:]...)
			default:
				ins := []string{"(", ")", "{", "}", ";", "<", ">", "[", "]", "@", "0x", "1e40", "/*", "*/", "//", "\r", "\x00", "\xff", "array<", "ptr<"}[c.rng.Intn(20)]
				b = append(append(append([]byte{}, b[:p]...), ins...), b[p:]...)
			}
		}
		return "mutation", string(b)
	case 4: // deep expression nesting
		d := []int{50, 500, 3000, 12000, 31000}[c.rng.Intn(5)]
		switch c.rng.Intn(4) {
		case 0:
			return "deep-parens", wrap("  o[0] = " + rep("(", fit(d, 2)) + "1u" + rep(")", fit(d, 2)) + ";")
		case 1:
			return "deep-unary", wrap("  let x = " + rep("-", fit(d, 1)) + "1i;")
		case 2:
			// left-nested chain of one operator over a run-time or constant seed; short chains too, where
			// an exponential walk (2^n) is already slow but a quadratic one is not
			op := []string{"+", "-", "*", "/", "%", "&", "|", "^", "<<", ">>"}[c.rng.Intn(10)]
			seed := []string{"1u", "o[0]", "o[1]"}[c.rng.Intn(3)]
			if c.chance(0.5) {
				d = 24 + c.rng.Intn(40)
			}
			chain := seed + rep(" "+op+" 1u", fit(d, 6))
			if c.chance(0.3) { // right-nested
				chain = rep("(1u "+op+" ", fit(d, 8)) + seed + rep(")", fit(d, 8))
			}
			return "long-binary-chain", wrap("  o[0] = " + chain + ";")
		default:
			return "deep-index", wrap("  o[0] = o" + rep("[o", fit(d, 3)) + "[0]" + rep("]", fit(d, 3)) + ";")
		}
	case 5: // deep statement nesting
		d := []int{50, 400, 2000, 8000}[c.rng.Intn(4)]
		switch c.rng.Intn(3) {
		case 0:
			return "deep-blocks", wrap(rep("{", fit(d, 2)) + "o[0] = 1u;" + rep("}", fit(d, 2)))
		case 1:
			return "deep-if", wrap(rep("if (o[0] == 1u) {", fit(d, 18)) + "o[0] = 1u;" + rep("}", fit(d, 18)))
		default:
			return "deep-loops", wrap(rep("loop { ", fit(d, 9)) + "break;" + rep(" }", fit(d, 9)))
		}
	case 6: // huge literals and array sizes
		lits := []string{"99999999999999999999999999999999u", "1e99999", "0x" + rep("f", 400), rep("9", 5000), "1e-99999", "0x1p99999", "4294967296u", "-2147483649i", "1.0e38f * 1.0e38f"}
		l := lits[c.rng.Intn(len(lits))]
		if c.chance(0.5) {
			return "huge-literal", wrap("  let x = " + l + ";")
		}
		sz := []string{"4294967295", "1073741824", "65536", "1000000", "0x7fffffff"}[c.rng.Intn(5)]
		forms := []string{
			"var<private> big: array<u32, " + sz + ">;\n" + wrap("  o[0] = big[1];"),
			"var<workgroup> big: array<u32, " + sz + ">;\n" + wrap("  o[0] = big[1];"),
			wrap("  var big: array<u32, " + sz + ">;\n  o[0] = big[1];"),
			wrap("  let big = array<u32, " + sz + ">();\n  o[0] = big[1];"),
			"var<private> big: array<array<array<u32, 1024>, 1024>, 1024>;\n" + wrap("  o[0] = big[1][2][3];"),
			"struct S { a: array<vec4<f32>, " + sz + ">, }\nvar<private> big: S;\n" + wrap("  o[0] = u32(big.a[1].x);"),
		}
		return "huge-array", forms[c.rng.Intn(len(forms))]
	case 7: // value-less calls used as values, odd statement forms
		forms := []string{"  if (workgroupBarrier()) { }", "  let x = -workgroupBarrier();", "  o[0] = storageBarrier();", "  let y = main();", "  main();",
			"  _ = workgroupBarrier();", "  var z = workgroupBarrier() + 1u;", "  o[workgroupBarrier()] = 1u;", "  switch workgroupBarrier() { default: {} }",
			"  for (;workgroupBarrier();) { }", "  return workgroupBarrier();", "  let v = vec2<u32>(workgroupBarrier());"}
		if c.chance(0.5) {
			// shapes that are invalid WGSL but that the front end may accept: whole-value uses of runtime- and
			// override-sized arrays, atomics and pointers
			pre := "struct RS { n: u32, a: array<u32>, }\n@group(0) @binding(1) var<storage, read_write> rs: RS;\noverride ov: u32 = 4u;\nvar<workgroup> wa: array<u32, ov>;\n" +
				"var<workgroup> at: atomic<u32>;\nstruct AS { a: atomic<u32>, b: array<atomic<u32>, 2>, }\nvar<workgroup> ast: AS;\nfn takes(p: ptr<function, u32>) -> u32 { return *p; }\n"
			odd := []string{"  let x = o;", "  let x = rs;", "  var x = rs;", "  let x = rs.a;", "  let x = wa;", "  let x = array<u32, ov>();", "  let x = array<u32, ov>(1u, 2u, 3u, 4u);",
				"  let x = at;", "  let x = ast;", "  let x = ast.b;", "  o = o;", "  rs = rs;", "  wa = wa;", "  at = at;", "  let p = &o; let y = *p;", "  let p = &rs; let y = *p;",
				"  let n = arrayLength(&wa);", "  let n = arrayLength(&rs);", "  let n = arrayLength(&o[0]);", "  var l: array<u32>;", "  var l: array<u32, ov>;", "  var l: RS;",
				"  var l: atomic<u32>;", "  let z = takes(&o[0]);", "  let z = takes(&wa[0]);", "  var v = 1u; let z = takes(&v) + takes(&v);", "  let x = array<u32, 0>();",
				"  let x = array<array<u32>, 2>();", "  let x = RS(1u, o);", "  let x = RS();", "  let q = o == o;", "  let q = rs.a[0] + wa;", "  let q = select(o, o, true);",
				"  for (var i = o; ; ) { break; }", "  switch rs { default: {} }", "  return o;", "  let x = bitcast<u32>(rs);", "  let x = vec2<u32>(wa);", "  let x = u32(o);"}
			return "odd-forms", pre + wrap(odd[c.rng.Intn(len(odd))])
		}
		return "void-as-value", wrap(forms[c.rng.Intn(len(forms))])
	case 8: // very long constructs
		n := []int{100, 2000, 20000}[c.rng.Intn(3)]
		switch c.rng.Intn(4) {
		case 0:
			return "many-statements", wrap(rep("  o[0] = o[0] + 1u;\n", fit(n, 20)))
		case 1:
			return "many-args", "fn f(" + rep("a: u32, ", 0) + "x: u32) -> u32 { return x; }\n" + wrap("  o[0] = f(" + rep("1u, ", fit(n, 4)) + "2u);")
		case 2:
			var sb strings.Builder
			for j := 0; j < fit(n, 40); j++ {
				fmt.Fprintf(&sb, "fn f%d() -> u32 { return %du; }\n", j, j)
			}
			return "many-functions", sb.String() + wrap("  o[0] = f0();")
		default:
			return "long-identifier", wrap("  let " + rep("a", fit(n, 2)) + " = 1u;\n  o[0] = " + rep("a", fit(n, 2)) + ";")
		}
	case 9: // recursive / cyclic declarations
		forms := []string{"alias A = B;\nalias B = A;\n" + wrap("  var x: A;"), "struct S { s: S, }\n" + wrap("  var x: S;"), "alias A = array<A, 2>;\n" + wrap("  var x: A;"),
			"fn f() -> u32 { return g(); }\nfn g() -> u32 { return f(); }\n" + wrap("  o[0] = f();"), "const a = b;\nconst b = a;\n" + wrap("  o[0] = a;"),
			"struct S { a: array<S, 2>, }\n" + wrap("  var x: S;"), "override o1: u32 = o2;\noverride o2: u32 = o1;\n" + wrap("  o[0] = o1;"),
			"fn f() -> u32 { return f(); }\n" + wrap("  o[0] = f();"), "alias V = vec4<V>;\n" + wrap("  var x: V;")}
		return "cyclic-decl", forms[c.rng.Intn(len(forms))]
	case 10: // truncated valid programs
		s := valid[c.rng.Intn(len(valid))]
		return "truncated", s[:c.rng.Intn(len(s)+1)]
	default: // valid program twice / concatenated garbage
		s := valid[c.rng.Intn(len(valid))]
		return "valid-plus-garbage", s + s[:c.rng.Intn(len(s)+1)]
	}
}

// c10Drive runs every public entry point on src; returns "" or a description of what went wrong.
func c10Drive(src string, out *bufio.Writer) string {
	var bad []string
	guard := func(stage string, f func() error) stageResult { // names the stage in the progress log before it starts
		fmt.Fprintf(out, "STAGE %s\n", stage)
		out.Flush()
		t0 := time.Now()
		r := guard(stage, f)
		if ms := time.Since(t0).Milliseconds(); ms >= 1000 {
			fmt.Fprintf(out, "STAGE-SLOW %s %d ms\n", stage, ms)
		}
		return r
	}
	note := func(stage, err string) {
		if strings.HasPrefix(err, "panic:") {
			bad = append(bad, stage+" "+err)
		}
	}
	r := guard("tokenize", func() error { _, err := wgsl.VerifTokens(src); return err })
	note("tokenize", r.err)
	r = guard("compile", func() error { _, err := naga.Compile(src); return err })
	note("naga.Compile", r.err)
	fmt.Fprintf(out, "STAGE front-end\n")
	out.Flush()
	mod, res := frontEnd(src)
	for _, x := range res {
		note(x.stage, x.err)
	}
	if mod != nil {
		for _, x := range []stageResult{
			guard("spirv-1.0", func() error { _, e := naga.GenerateSPIRV(mod, spirv.Options{Version: spirv.Version1_0, Debug: true}); return e }),
			guard("spirv-1.6", func() error { _, e := naga.GenerateSPIRV(mod, spirv.Options{Version: spirv.Version1_6, ForceLoopBounding: true}); return e }),
			guard("hlsl", func() error { _, _, e := hlsl.Compile(mod, hlsl.DefaultOptions()); return e }),
			guard("msl", func() error { _, _, e := msl.Compile(mod, msl.DefaultOptions()); return e }),
			guard("glsl", func() error { _, _, e := glsl.Compile(mod, glsl.Options{LangVersion: glsl.Version430, EntryPoint: firstEP(mod)}); return e }),
			guard("glsl-es", func() error { _, _, e := glsl.Compile(mod, glsl.Options{LangVersion: glsl.Version{Major: 3, Minor: 10, ES: true}, EntryPoint: firstEP(mod)}); return e }),
			guard("dxil", func() error { _, e := dxil.Compile(mod, dxil.DefaultOptions()); return e }),
		} {
			note(x.stage, x.err)
		}
	}
	return strings.Join(bad, " ;; ")
}

func cmdC10(c *ctx) {
	skip := 0
	for _, a := range c.args {
		fmt.Sscanf(a, "skip=%d", &skip)
	}
	var valid []string
	for i := 0; i < 30; i++ {
		o := defaultGenOpts(c)
		wm, _ := genModule(c, o)
		valid = append(valid, wm.wgsl())
		valid = append(valid, genMulti(c).wgsl())
	}
	out := bufio.NewWriter(os.Stdout)
	seen := map[string]bool{}
	for i := 0; i < c.n; i++ {
		class, src := c10Input(c, i, valid)
		if len(src) > 65536 {
			src = src[:65536]
		}
		if seen[src] { // the fixed-form classes repeat: run each distinct input once
			c.count("duplicate-inputs-skipped")
			continue
		}
		seen[src] = true
		c.line("inputs.txt", fmt.Sprintf("%d %s %s", i, class, qb([]byte(src))))
		if i < skip {
			continue
		}
		for _, w := range c.files { // make inputs.txt durable before a possible crash
			w.Flush()
		}
		fmt.Fprintf(out, "BEGIN %d %s %d\n", i, class, len(src))
		out.Flush()
		t0 := time.Now()
		cpu0 := cpuMillis()
		bad := c10Drive(src, out)
		ms := time.Since(t0).Milliseconds()
		// the budget is judged on min(wall, CPU) so that a loaded machine does not turn into a "slow input"
		if cpu := cpuMillis() - cpu0; cpu < ms {
			ms = cpu
		}
		verdict := "ok"
		if bad != "" {
			verdict = "PANIC " + oneLine(bad)
		}
		fmt.Fprintf(out, "END %d %s %d %s\n", i, class, ms, verdict)
		out.Flush()
		c.count("inputs:" + class)
	}
}

func init() { commands["c10"] = cmdC10 }

// cpuMillis: user + system CPU time of this process so far.
func cpuMillis() int64 {
	var ru syscall.Rusage
	if err := syscall.Getrusage(syscall.RUSAGE_SELF, &ru); err != nil {
		return 1 << 60
	}
	return (ru.Utime.Sec+ru.Stime.Sec)*1000 + int64(ru.Utime.Usec+ru.Stime.Usec)/1000
}

// c10one FILE…: replay — run every entry point on the given source files, printing the time of each stage.
func cmdC10One(c *ctx) {
	out := bufio.NewWriter(os.Stdout)
	for _, f := range c.args {
		b, err := os.ReadFile(f)
		if err != nil {
			fmt.Fprintln(out, "read:", err)
			continue
		}
		t0 := time.Now()
		bad := c10Drive(string(b), out)
		fmt.Fprintf(out, "DONE %s %d bytes %d ms %s\n", f, len(b), time.Since(t0).Milliseconds(), bad)
		out.Flush()
	}
}

func init() { commands["c10one"] = cmdC10One }
