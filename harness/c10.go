package main

// C10 — no input makes the compiler panic, crash, hang or exhaust memory.
// `vh c10 -n N [-skip K]`: generates N inputs from the seed (arbitrary bytes, token- and tree-level mutations of valid
// programs, deep nesting, long constructs, huge literals and array sizes) and drives every public entry point on each,
// one after the other, in this process.  Before each input it prints `BEGIN i class` and flushes, after it `END i
// verdict ms`; a recovered panic is a verdict.  The supervising check runs this under a wall-clock and address-space
// limit: if the process dies or stalls, the last BEGIN line names the input (inputs.txt holds them, quoted).

import (
	"syscall"
	"bufio"
	"fmt"
	"os"
	"strings"
	"time"

	"github.com/gogpu/naga"
	"github.com/gogpu/naga/dxil"
	"github.com/gogpu/naga/glsl"
	"github.com/gogpu/naga/hlsl"
	"github.com/gogpu/naga/msl"
	"github.com/gogpu/naga/spirv"
	"github.com/gogpu/naga/wgsl"
)

func c10Input(c *ctx, i int, valid []string) (class string, src string) {
	rep := func(s string, n int) string { return strings.Repeat(s, n) }
	wrap := func(body string) string {
		return "@group(0) @binding(0) var<storage, read_write> o: array<u32>;\n@compute @workgroup_size(1)\nfn main() {\n" + body + "\n}\n"
	}
	// the property's scope is sources of at most 64 KiB: nesting depths are cut to fit
	fit := func(d, unit int) int { return min(d, 64000/unit) }
	cls := i % 16
	if cls == 11 && i%32 == 11 {
		cls = 13 // half of the valid-plus-garbage slots go to the arity probes
	}
	if cls == 9 && i%32 == 25 {
		cls = 16 // half of the cyclic-declaration slots go to deeply nested (acyclic) types
	}
	switch cls {
	case 16: // deeply nested array types and DAG-shaped struct nesting (small sources, large or deep types)
		if c.chance(0.5) {
			d := []int{16, 64, 200, 500}[c.rng.Intn(4)]
			ty := rep("array<", d) + "f32" + rep(", 2>", d)
			forms := []string{
				"struct S { a: " + ty + ", }\n" + wrap("  var s: S;"),
				"var<private> p: " + ty + ";\n" + wrap("  o[0] = 1u;"),
				"struct S { a: " + ty + ", }\n@group(0) @binding(1) var<storage, read_write> b: S;\n" + wrap("  o[0] = 1u;"),
			}
			return "deep-array-type", forms[c.rng.Intn(len(forms))]
		}
		k := []int{8, 12, 16, 20, 24}[c.rng.Intn(5)]
		var sb strings.Builder
		sb.WriteString("struct S0 { a: f32, }\n")
		for j := 1; j <= k; j++ {
			fmt.Fprintf(&sb, "struct S%d { a: S%d, b: S%d, }\n", j, j-1, j-1)
		}
		path := rep(".a", k+1)
		forms := []string{
			fmt.Sprintf("@group(0) @binding(1) var<storage, read_write> buf: S%d;\n", k) + wrap("  buf"+path+" = 1.0;"),
			fmt.Sprintf("var<private> w: S%d;\n", k) + wrap("  w"+path+" = 1.0;"),
			wrap(fmt.Sprintf("  var w: S%d;\n  w%s = 1.0;", k, path)),
			wrap("  o[0] = 1u;"), // declared, never instantiated
		}
		return "struct-dag", sb.String() + forms[c.rng.Intn(len(forms))]
	case 0: // arbitrary bytes
		n := c.rng.Intn(300)
		if c.chance(0.05) {
			n = c.rng.Intn(65536)
		}
		b := make([]byte, n)
		for j := range b {
			b[j] = byte(c.rng.Intn(256))
		}
		return "bytes", string(b)
	case 1: // printable soup of WGSL tokens
		toks := []string{"fn", "var", "let", "const", "(", ")", "{", "}", "[", "]", "<", ">", ";", ",", ":", "->", "@", "+", "-", "*", "/", "%", "&&", "||", "=", "==",
			"u32", "i32", "f32", "vec4", "array", "struct", "if", "else", "loop", "for", "while", "switch", "case", "default", "return", "break", "continue", "x", "y", "main",
			"1", "2u", "3.0", "0x", "1e999", "true", "@compute", "@workgroup_size", "override", "alias", "ptr", "function", "&", "|", "^", "!", "~", ".", "_", "atomic"}
		var sb strings.Builder
		for j, n := 0, c.rng.Intn(200); j < n; j++ {
			sb.WriteString(toks[c.rng.Intn(len(toks))])
			sb.WriteByte(" \n\t"[c.rng.Intn(3)])
		}
		return "token-soup", sb.String()
	case 2, 3: // byte/token mutation of a valid program
		s := valid[c.rng.Intn(len(valid))]
		b := []byte(s)
		for k, nm := 0, 1+c.rng.Intn(4); k < nm && len(b) > 4; k++ {
			p := c.rng.Intn(len(b))
			switch c.rng.Intn(5) {
			case 0:
				b = append(b[:p], b[p+1:]...)
			case 1:
				b[p] = byte(c.rng.Intn(256))
			case 2:
				q := p + c.rng.Intn(len(b)-p)
				b = append(b[:p], b[q:]...)
			case 3:
				q := p + c.rng.Intn(min(40, len(b)-p))
				b = append(append(append([]byte{}, b[:q]...), b[p:q]...), b[q:]...)
			default:
				ins := []string{"(", ")", "{", "}", ";", "<", ">", "[", "]", "@", "0x", "1e40", "/*", "*/", "//", "\r", "\x00", "\xff", "array<", "ptr<"}[c.rng.Intn(20)]
				b = append(append(append([]byte{}, b[:p]...), ins...), b[p:]...)
			}
		}
		return "mutation", string(b)
	case 4: // deep expression nesting
		d := []int{50, 500, 3000, 12000, 31000}[c.rng.Intn(5)]
		switch c.rng.Intn(4) {
		case 0:
			return "deep-parens", wrap("  o[0] = " + rep("(", fit(d, 2)) + "1u" + rep(")", fit(d, 2)) + ";")
		case 1:
			return "deep-unary", wrap("  let x = " + rep("-", fit(d, 1)) + "1i;")
		case 2:
			// left-nested chain of one operator over a run-time or constant seed; short chains too, where
			// an exponential walk (2^n) is already slow but a quadratic one is not
			op := []string{"+", "-", "*", "/", "%", "&", "|", "^", "<<", ">>"}[c.rng.Intn(10)]
			seed := []string{"1u", "o[0]", "o[1]"}[c.rng.Intn(3)]
			if c.chance(0.5) {
				d = 24 + c.rng.Intn(40)
			}
			chain := seed + rep(" "+op+" 1u", fit(d, 6))
			if c.chance(0.3) { // right-nested
				chain = rep("(1u "+op+" ", fit(d, 8)) + seed + rep(")", fit(d, 8))
			}
			return "long-binary-chain", wrap("  o[0] = " + chain + ";")
		default:
			return "deep-index", wrap("  o[0] = o" + rep("[o", fit(d, 3)) + "[0]" + rep("]", fit(d, 3)) + ";")
		}
	case 5: // deep statement nesting
		d := []int{50, 400, 2000, 8000}[c.rng.Intn(4)]
		switch c.rng.Intn(3) {
		case 0:
			return "deep-blocks", wrap(rep("{", fit(d, 2)) + "o[0] = 1u;" + rep("}", fit(d, 2)))
		case 1:
			return "deep-if", wrap(rep("if (o[0] == 1u) {", fit(d, 18)) + "o[0] = 1u;" + rep("}", fit(d, 18)))
		default:
			return "deep-loops", wrap(rep("loop { ", fit(d, 9)) + "break;" + rep(" }", fit(d, 9)))
		}
	case 6: // huge literals and array sizes
		lits := []string{"99999999999999999999999999999999u", "1e99999", "0x" + rep("f", 400), rep("9", 5000), "1e-99999", "0x1p99999", "4294967296u", "-2147483649i", "1.0e38f * 1.0e38f"}
		l := lits[c.rng.Intn(len(lits))]
		if c.chance(0.5) {
			return "huge-literal", wrap("  let x = " + l + ";")
		}
		sz := []string{"4294967295", "1073741824", "65536", "1000000", "0x7fffffff"}[c.rng.Intn(5)]
		forms := []string{
			"var<private> big: array<u32, " + sz + ">;\n" + wrap("  o[0] = big[1];"),
			"var<workgroup> big: array<u32, " + sz + ">;\n" + wrap("  o[0] = big[1];"),
			wrap("  var big: array<u32, " + sz + ">;\n  o[0] = big[1];"),
			wrap("  let big = array<u32, " + sz + ">();\n  o[0] = big[1];"),
			"var<private> big: array<array<array<u32, 1024>, 1024>, 1024>;\n" + wrap("  o[0] = big[1][2][3];"),
			"struct S { a: array<vec4<f32>, " + sz + ">, }\nvar<private> big: S;\n" + wrap("  o[0] = u32(big.a[1].x);"),
		}
		return "huge-array", forms[c.rng.Intn(len(forms))]
	case 7: // value-less calls used as values, odd statement forms
		forms := []string{"  if (workgroupBarrier()) { }", "  let x = -workgroupBarrier();", "  o[0] = storageBarrier();", "  let y = main();", "  main();",
			"  _ = workgroupBarrier();", "  var z = workgroupBarrier() + 1u;", "  o[workgroupBarrier()] = 1u;", "  switch workgroupBarrier() { default: {} }",
			"  for (;workgroupBarrier();) { }", "  return workgroupBarrier();", "  let v = vec2<u32>(workgroupBarrier());"}
		if c.chance(0.5) {
			// shapes that are invalid WGSL but that the front end may accept: whole-value uses of runtime- and
			// override-sized arrays, atomics and pointers
			pre := "struct RS { n: u32, a: array<u32>, }\n@group(0) @binding(1) var<storage, read_write> rs: RS;\noverride ov: u32 = 4u;\nvar<workgroup> wa: array<u32, ov>;\n" +
				"var<workgroup> at: atomic<u32>;\nstruct AS { a: atomic<u32>, b: array<atomic<u32>, 2>, }\nvar<workgroup> ast: AS;\nfn takes(p: ptr<function, u32>) -> u32 { return *p; }\n"
			odd := []string{"  let x = o;", "  let x = rs;", "  var x = rs;", "  let x = rs.a;", "  let x = wa;", "  let x = array<u32, ov>();", "  let x = array<u32, ov>(1u, 2u, 3u, 4u);",
				"  let x = at;", "  let x = ast;", "  let x = ast.b;", "  o = o;", "  rs = rs;", "  wa = wa;", "  at = at;", "  let p = &o; let y = *p;", "  let p = &rs; let y = *p;",
				"  let n = arrayLength(&wa);", "  let n = arrayLength(&rs);", "  let n = arrayLength(&o[0]);", "  var l: array<u32>;", "  var l: array<u32, ov>;", "  var l: RS;",
				"  var l: atomic<u32>;", "  let z = takes(&o[0]);", "  let z = takes(&wa[0]);", "  var v = 1u; let z = takes(&v) + takes(&v);", "  let x = array<u32, 0>();",
				"  let x = array<array<u32>, 2>();", "  let x = RS(1u, o);", "  let x = RS();", "  let q = o == o;", "  let q = rs.a[0] + wa;", "  let q = select(o, o, true);",
				"  for (var i = o; ; ) { break; }", "  switch rs { default: {} }", "  return o;", "  let x = bitcast<u32>(rs);", "  let x = vec2<u32>(wa);", "  let x = u32(o);"}
			return "odd-forms", pre + wrap(odd[c.rng.Intn(len(odd))])
		}
		return "void-as-value", wrap(forms[c.rng.Intn(len(forms))])
	case 8: // very long constructs
		n := []int{100, 2000, 20000}[c.rng.Intn(3)]
		switch c.rng.Intn(4) {
		case 0:
			return "many-statements", wrap(rep("  o[0] = o[0] + 1u;\n", fit(n, 20)))
		case 1:
			return "many-args", "fn f(" + rep("a: u32, ", 0) + "x: u32) -> u32 { return x; }\n" + wrap("  o[0] = f(" + rep("1u, ", fit(n, 4)) + "2u);")
		case 2:
			var sb strings.Builder
			for j := 0; j < fit(n, 40); j++ {
				fmt.Fprintf(&sb, "fn f%d() -> u32 { return %du; }\n", j, j)
			}
			return "many-functions", sb.String() + wrap("  o[0] = f0();")
		default:
			return "long-identifier", wrap("  let " + rep("a", fit(n, 2)) + " = 1u;\n  o[0] = " + rep("a", fit(n, 2)) + ";")
		}
	case 9: // recursive / cyclic declarations
		forms := []string{"alias A = B;\nalias B = A;\n" + wrap("  var x: A;"), "struct S { s: S, }\n" + wrap("  var x: S;"), "alias A = array<A, 2>;\n" + wrap("  var x: A;"),
			"fn f() -> u32 { return g(); }\nfn g() -> u32 { return f(); }\n" + wrap("  o[0] = f();"), "const a = b;\nconst b = a;\n" + wrap("  o[0] = a;"),
			"struct S { a: array<S, 2>, }\n" + wrap("  var x: S;"), "override o1: u32 = o2;\noverride o2: u32 = o1;\n" + wrap("  o[0] = o1;"),
			"fn f() -> u32 { return f(); }\n" + wrap("  o[0] = f();"), "alias V = vec4<V>;\n" + wrap("  var x: V;")}
		return "cyclic-decl", forms[c.rng.Intn(len(forms))]
	case 12: // constant and dynamic indices at, just past and far past the bounds of vectors, matrices and arrays
		bases := []struct {
			decl, name string
			n          int
		}{
			{"", "vec3(1, 2, 3)", 3}, {"", "vec4(vec2(1, 2), vec2(3, 4))", 4}, {"", "vec2<f32>(1.0, 2.0)", 2}, {"", "array<u32, 3>(1u, 2u, 3u)", 3},
			{"", "mat2x2<f32>(1.0, 2.0, 3.0, 4.0)", 2}, {"const cv = vec2(1.0, 2.0);\n", "cv", 2}, {"const ca = array(1, 2, 3);\n", "ca", 3},
			{"const cm = mat3x2<f32>();\n", "cm", 3}, {"var<private> pv: vec3<u32>;\n", "pv", 3}, {"var<private> pa: array<u32, 4>;\n", "pa", 4},
			{"const cav = array(vec2(1, 2), vec2(3, 4));\n", "cav", 2}, {"", "vec3<bool>(true, false, true)", 3},
		}
		b := bases[c.rng.Intn(len(bases))]
		idx := []string{fmt.Sprint(b.n - 1), fmt.Sprint(b.n), fmt.Sprint(b.n + 1), "7", "4294967295u", "-1", "2147483647", "0x7fffffffu", "(1 - 2)", "i32(-1)",
			fmt.Sprintf("%du", b.n), "o[0]"}[c.rng.Intn(12)]
		form := []string{"  let x = %s[%s];", "  var x = %s[%s];", "  const x = %s[%s];", "  o[0] = u32(%s[%s]);", "  let x = %s[%s][%s];"}[c.rng.Intn(5)]
		if strings.Count(form, "%s") == 3 {
			return "boundary-index", b.decl + wrap(fmt.Sprintf(form, b.name, idx, idx))
		}
		return "boundary-index", b.decl + wrap(fmt.Sprintf(form, b.name, idx))
	case 13: // builtin calls with too few / too many arguments
		pre := "@group(0) @binding(1) var t: texture_2d<f32>;\n@group(0) @binding(2) var s: sampler;\n@group(0) @binding(3) var ts: texture_storage_2d<rgba8unorm, write>;\n" +
			"@group(0) @binding(4) var td: texture_depth_2d;\n@group(0) @binding(5) var sc: sampler_comparison;\nvar<workgroup> wa: atomic<u32>;\nvar<workgroup> wu: u32;\n"
		// a correct argument list per function, cut short or extended
		sigs := [][]string{
			{"textureSample", "t", "s", "vec2<f32>(0.5)"}, {"textureSampleLevel", "t", "s", "vec2<f32>(0.5)", "0.0"}, {"textureSampleBias", "t", "s", "vec2<f32>(0.5)", "0.5"},
			{"textureSampleGrad", "t", "s", "vec2<f32>(0.5)", "vec2<f32>(0.1)", "vec2<f32>(0.1)"}, {"textureSampleCompare", "td", "sc", "vec2<f32>(0.5)", "0.5"},
			{"textureSampleCompareLevel", "td", "sc", "vec2<f32>(0.5)", "0.5"}, {"textureGather", "0", "t", "s", "vec2<f32>(0.5)"}, {"textureGatherCompare", "td", "sc", "vec2<f32>(0.5)", "0.5"},
			{"textureLoad", "t", "vec2<i32>(1)", "0"}, {"textureStore", "ts", "vec2<i32>(1)", "vec4<f32>(1.0)"}, {"textureDimensions", "t", "0"}, {"textureNumLevels", "t"},
			{"min", "1u", "2u"}, {"max", "1.0", "2.0"}, {"clamp", "1u", "0u", "2u"}, {"dot", "vec2<f32>(0.5)", "vec2<f32>(0.5)"}, {"cross", "vec3<f32>(1.0)", "vec3<f32>(2.0)"},
			{"select", "1u", "2u", "true"}, {"mix", "1.0", "2.0", "0.5"}, {"fma", "1.0", "2.0", "3.0"}, {"smoothstep", "0.0", "1.0", "0.5"}, {"abs", "1.0"}, {"arrayLength", "&o"},
			{"atomicAdd", "&wa", "1u"}, {"atomicLoad", "&wa"}, {"atomicStore", "&wa", "1u"}, {"atomicExchange", "&wa", "1u"}, {"atomicCompareExchangeWeak", "&wa", "1u", "2u"},
			{"workgroupUniformLoad", "&wu"}, {"bitcast<u32>", "1.0"}, {"vec3<f32>", "1.0", "2.0", "3.0"}, {"vec4", "1", "2", "3", "4"}, {"mat2x2<f32>", "1.0", "2.0", "3.0", "4.0"},
			{"array<u32, 2>", "1u", "2u"}, {"u32", "1.0"}, {"pack4x8unorm", "vec4<f32>(1.0)"}, {"unpack4x8unorm", "1u"}, {"extractBits", "1u", "2u", "3u"},
			{"insertBits", "1u", "2u", "3u", "4u"}, {"countOneBits", "1u"}, {"length", "vec2<f32>(0.5)"}, {"distance", "1.0", "2.0"}, {"pow", "1.0", "2.0"}, {"ldexp", "1.0", "2"},
			{"frexp", "1.0"}, {"modf", "1.5"}, {"transpose", "mat2x2<f32>()"}, {"determinant", "mat2x2<f32>()"}, {"all", "vec2<bool>(true)"}, {"subgroupBallot", "true"},
			{"subgroupAdd", "1u"}, {"subgroupBroadcast", "1u", "1u"}, {"subgroupShuffle", "1u", "1u"}, {"dot4U8Packed", "1u", "2u"}, {"quantizeToF16", "1.0"}, {"storageBarrier"},
			{"workgroupBarrier"}, {"sign", "1.0"}, {"saturate", "1.0"}, {"faceForward", "vec3<f32>(1.0)", "vec3<f32>(1.0)", "vec3<f32>(1.0)"}, {"refract", "vec3<f32>(1.0)", "vec3<f32>(1.0)", "0.5"},
		}
		extra := []string{"t", "s", "ts", "td", "sc", "&wa", "&wu", "&o", "1", "1u", "1.0", "vec2<f32>(0.5)", "vec2<i32>(1)", "vec4<f32>(1.0)", "o[0]", "true", "0"}
		// enumerate: first every proper prefix of every correct argument list (too few arguments), then random
		// extensions / replacements
		k := c.stats["arity-probes"]
		c.stats["arity-probes"]++
		var prefixes [][2]int
		for si, sg := range sigs {
			for n := 0; n < len(sg)-1; n++ {
				prefixes = append(prefixes, [2]int{si, n})
			}
		}
		var f string
		var as []string
		if k < len(prefixes) {
			sg := sigs[prefixes[k][0]]
			f, as = sg[0], append([]string{}, sg[1:1+prefixes[k][1]]...)
		} else {
			sg := sigs[c.rng.Intn(len(sigs))]
			f, as = sg[0], append([]string{}, sg[1:]...)
			if c.chance(0.5) {
				for j, n := 0, 1+c.rng.Intn(3); j < n; j++ {
					as = append(as, extra[c.rng.Intn(len(extra))])
				}
			} else if len(as) > 0 {
				as[c.rng.Intn(len(as))] = extra[c.rng.Intn(len(extra))]
			}
		}
		call := f + "(" + strings.Join(as, ", ") + ")"
		return "builtin-arity", pre + wrap([]string{"  let x = " + call + ";", "  " + call + ";", "  o[0] = u32(" + call + ");", "  _ = " + call + ";"}[c.rng.Intn(4)])
	case 14: // valid programs: every statement kind with expression operands, preceded by many dead folded expressions
		// (lowering compacts the arena afterwards, renumbering every later handle)
		pre := "enable subgroups;\n@group(0) @binding(1) var ts: texture_storage_2d<rgba8unorm, write>;\n@group(0) @binding(2) var<storage, read_write> sa: array<atomic<u32>, 4>;\n" +
			"var<workgroup> wa: atomic<u32>;\nvar<workgroup> wu: u32;\n"
		if c.chance(0.5) {
			pre = strings.TrimPrefix(pre, "enable subgroups;\n")
		}
		var sb strings.Builder
		sb.WriteString("  var acc = o[0];\n")
		for j, n := 0, 1+c.rng.Intn(30); j < n; j++ {
			fmt.Fprintf(&sb, "  let d%d = vec4(%d, 2, 3, 4).%s;\n", j, j, []string{"wzyx", "xy", "zzz", "x"}[c.rng.Intn(4)])
		}
		stmts := []string{"  let b = subgroupBallot(acc > 1u); acc = acc + b.x;", "  let b = subgroupBallot(); acc = acc + b.x;", "  acc = acc + subgroupAdd(acc * 2u);",
			"  acc = acc + subgroupBroadcast(acc + 1u, 1u);", "  acc = acc + subgroupShuffle(acc, acc & 3u);", "  acc = acc + subgroupExclusiveAdd(acc);",
			"  acc = acc + atomicAdd(&wa, acc + 1u);", "  acc = acc + atomicMax(&sa[acc & 3u], acc);", "  acc = acc + workgroupUniformLoad(&wu);",
			"  textureStore(ts, vec2<i32>(i32(acc), 1), vec4<f32>(f32(acc)));", "  let r = atomicCompareExchangeWeak(&wa, acc, acc + 1u); acc = acc + r.old_value;",
			"  atomicStore(&wa, acc * 3u);", "  workgroupBarrier();", "  acc = acc + subgroupBroadcastFirst(acc);", "  acc = acc + select(1u, 2u, subgroupAll(acc > 2u));"}
		for j, n := 0, 1+c.rng.Intn(4); j < n; j++ {
			sb.WriteString(stmts[c.rng.Intn(len(stmts))] + "\n")
		}
		sb.WriteString("  o[1] = acc;")
		return "compaction-stress", pre + wrap(sb.String())
	case 15: // a chain of let bindings each using the previous one twice (shared sub-expressions): any stage whose work
		// doubles per binding (found: type resolution, the GLSL writer's constant search — both repaired) needs hours at 40;
		// every seed / operator / second-operand shape at every length (the second operand may also be a *different* earlier
		// binding or a unary / converted use of the previous one)
		n := []int{8, 16, 24, 40, 64, 200}[c.rng.Intn(6)]
		var sb strings.Builder
		seed := []string{"o[0]", "f32(o[0])", "vec2<f32>(f32(o[0]))", "i32(o[0])"}[c.rng.Intn(4)]
		op := []string{"+", "*", "-", "&", "|", "/"}[c.rng.Intn(6)]
		if (seed == "f32(o[0])" || strings.HasPrefix(seed, "vec2")) && (op == "&" || op == "|") {
			op = "+"
		}
		shape := c.rng.Intn(4)
		fmt.Fprintf(&sb, "  let a0 = %s %s %s;\n", seed, op, seed)
		for j := 1; j <= n; j++ {
			switch {
			case shape == 1 && j >= 2:
				fmt.Fprintf(&sb, "  let a%d = a%d %s a%d;\n", j, j-1, op, j-2)
			case shape == 2:
				fmt.Fprintf(&sb, "  let a%d = a%d %s (-a%d);\n", j, j-1, op, j-1)
			case shape == 3:
				fmt.Fprintf(&sb, "  let a%d = min(a%d, a%d) %s a%d;\n", j, j-1, j-1, op, j-1)
			default:
				fmt.Fprintf(&sb, "  let a%d = a%d %s a%d;\n", j, j-1, op, j-1)
			}
		}
		fmt.Fprintf(&sb, "  o[1] = u32(a%d%s);", n, map[bool]string{true: ".x", false: ""}[strings.HasPrefix(seed, "vec2")])
		return "shared-let-chain", wrap(sb.String())
	case 10: // truncated valid programs
		s := valid[c.rng.Intn(len(valid))]
		return "truncated", s[:c.rng.Intn(len(s)+1)]
	default: // valid program twice / concatenated garbage
		s := valid[c.rng.Intn(len(valid))]
		return "valid-plus-garbage", s + s[:c.rng.Intn(len(s)+1)]
	}
}

// c10Drive runs every public entry point on src; returns "" or a description of what went wrong.
func c10Drive(src string, out *bufio.Writer) string {
	var bad []string
	guard := func(stage string, f func() error) stageResult { // names the stage in the progress log before it starts
		fmt.Fprintf(out, "STAGE %s\n", stage)
		out.Flush()
		t0 := time.Now()
		r := guard(stage, f)
		if ms := time.Since(t0).Milliseconds(); ms >= 1000 {
			fmt.Fprintf(out, "STAGE-SLOW %s %d ms\n", stage, ms)
		}
		return r
	}
	note := func(stage, err string) {
		if strings.HasPrefix(err, "panic:") {
			bad = append(bad, stage+" "+err)
		}
	}
	r := guard("tokenize", func() error { _, err := wgsl.VerifTokens(src); return err })
	note("tokenize", r.err)
	r = guard("compile", func() error { _, err := naga.Compile(src); return err })
	note("naga.Compile", r.err)
	fmt.Fprintf(out, "STAGE front-end\n")
	out.Flush()
	mod, res := frontEnd(src)
	for _, x := range res {
		note(x.stage, x.err)
	}
	if mod != nil {
		for _, x := range []stageResult{
			guard("spirv-1.0", func() error { _, e := naga.GenerateSPIRV(mod, spirv.Options{Version: spirv.Version1_0, Debug: true}); return e }),
			guard("spirv-1.6", func() error { _, e := naga.GenerateSPIRV(mod, spirv.Options{Version: spirv.Version1_6, ForceLoopBounding: true}); return e }),
			guard("hlsl", func() error { _, _, e := hlsl.Compile(mod, hlsl.DefaultOptions()); return e }),
			guard("msl", func() error { _, _, e := msl.Compile(mod, msl.DefaultOptions()); return e }),
			guard("glsl", func() error { _, _, e := glsl.Compile(mod, glsl.Options{LangVersion: glsl.Version430, EntryPoint: firstEP(mod)}); return e }),
			guard("glsl-es", func() error { _, _, e := glsl.Compile(mod, glsl.Options{LangVersion: glsl.Version{Major: 3, Minor: 10, ES: true}, EntryPoint: firstEP(mod)}); return e }),
			guard("dxil", func() error { _, e := dxil.Compile(mod, dxil.DefaultOptions()); return e }),
		} {
			note(x.stage, x.err)
		}
	}
	return strings.Join(bad, " ;; ")
}

func cmdC10(c *ctx) {
	skip := 0
	for _, a := range c.args {
		fmt.Sscanf(a, "skip=%d", &skip)
	}
	var valid []string
	for i := 0; i < 30; i++ {
		o := defaultGenOpts(c)
		wm, _ := genModule(c, o)
		valid = append(valid, wm.wgsl())
		valid = append(valid, genMulti(c).wgsl())
	}
	out := bufio.NewWriter(os.Stdout)
	seen := map[string]bool{}
	for i := 0; i < c.n; i++ {
		class, src := c10Input(c, i, valid)
		if len(src) > 65536 {
			src = src[:65536]
		}
		if seen[src] { // the fixed-form classes repeat: run each distinct input once
			c.count("duplicate-inputs-skipped")
			continue
		}
		seen[src] = true
		c.line("inputs.txt", fmt.Sprintf("%d %s %s", i, class, qb([]byte(src))))
		if i < skip {
			continue
		}
		for _, w := range c.files { // make inputs.txt durable before a possible crash
			w.Flush()
		}
		fmt.Fprintf(out, "BEGIN %d %s %d\n", i, class, len(src))
		out.Flush()
		t0 := time.Now()
		cpu0 := cpuMillis()
		bad := c10Drive(src, out)
		ms := time.Since(t0).Milliseconds()
		// the budget is judged on min(wall, CPU) so that a loaded machine does not turn into a "slow input"
		if cpu := cpuMillis() - cpu0; cpu < ms {
			ms = cpu
		}
		verdict := "ok"
		if bad != "" {
			verdict = "PANIC " + oneLine(bad)
		}
		fmt.Fprintf(out, "END %d %s %d %s\n", i, class, ms, verdict)
		out.Flush()
		c.count("inputs:" + class)
	}
}

func init() { commands["c10"] = cmdC10 }

// cpuMillis: user + system CPU time of this process so far.
func cpuMillis() int64 {
	var ru syscall.Rusage
	if err := syscall.Getrusage(syscall.RUSAGE_SELF, &ru); err != nil {
		return 1 << 60
	}
	return (ru.Utime.Sec+ru.Stime.Sec)*1000 + int64(ru.Utime.Usec+ru.Stime.Usec)/1000
}

// c10one FILE…: replay — run every entry point on the given source files, printing the time of each stage.
func cmdC10One(c *ctx) {
	out := bufio.NewWriter(os.Stdout)
	for _, f := range c.args {
		b, err := os.ReadFile(f)
		if err != nil {
			fmt.Fprintln(out, "read:", err)
			continue
		}
		t0 := time.Now()
		bad := c10Drive(string(b), out)
		fmt.Fprintf(out, "DONE %s %d bytes %d ms %s\n", f, len(b), time.Since(t0).Milliseconds(), bad)
		out.Flush()
	}
}

func init() { commands["c10one"] = cmdC10One }
