package main

// C07 — memory layout.  Random host-shareable type trees -> real front end + backends ->
// every offset/span/stride/size the implementation records, next to the tree as an
// S-expression for the Lean model.

import (
	"fmt"
	"strings"

	"regexp"
	"strconv"

	"github.com/gogpu/naga"
	"github.com/gogpu/naga/hlsl"
	"github.com/gogpu/naga/ir"
	"github.com/gogpu/naga/glsl"
	"github.com/gogpu/naga/msl"
	"github.com/gogpu/naga/spirv"
)

type lty struct {
	kind    string // scalar atomic vec mat arr struct
	sc      string // f32 i32 u32 f16
	n, c, r int
	elem    *lty
	count   int // 0 = runtime
	members []lmember
	name    string // struct name
}
type lmember struct {
	ty          *lty
	align, size int
}

func scWidth(sc string) int {
	if sc == "f16" {
		return 2
	}
	return 4
}
func vecFactor(n int) int {
	if n == 2 {
		return 2
	}
	return 4
}
func roundUp(k, n int) int { return (n + k - 1) / k * k }

// generator-side layout (only used to choose *valid* @align/@size values)
func (t *lty) alignOf() int {
	switch t.kind {
	case "scalar", "atomic":
		return scWidth(t.sc)
	case "vec":
		return vecFactor(t.n) * scWidth(t.sc)
	case "mat":
		return vecFactor(t.r) * scWidth(t.sc)
	case "arr":
		return t.elem.alignOf()
	default:
		a := 1
		for _, m := range t.members {
			ma := m.align
			if ma == 0 {
				ma = m.ty.alignOf()
			}
			if ma > a {
				a = ma
			}
		}
		return a
	}
}
func (t *lty) sizeOf() int {
	switch t.kind {
	case "scalar", "atomic":
		return scWidth(t.sc)
	case "vec":
		return t.n * scWidth(t.sc)
	case "mat":
		return t.c * roundUp(vecFactor(t.r)*scWidth(t.sc), t.r*scWidth(t.sc))
	case "arr":
		n := t.count
		if n == 0 {
			n = 1
		}
		return n * roundUp(t.elem.alignOf(), t.elem.sizeOf())
	default:
		off := 0
		for _, m := range t.members {
			ma := m.align
			if ma == 0 {
				ma = m.ty.alignOf()
			}
			off = roundUp(ma, off)
			if m.size != 0 {
				off += m.size
			} else {
				off += m.ty.sizeOf()
			}
		}
		return roundUp(t.alignOf(), off)
	}
}

type c07gen struct {
	c       *ctx
	structs []*lty
	f16     bool
	paths   []lpath
}

func (g *c07gen) scalar(allowF16 bool) string {
	if allowF16 && g.f16 && g.c.chance(0.25) {
		return "f16"
	}
	return g.c.pick("f32", "i32", "u32")
}

func (g *c07gen) ty(depth int, top bool) *lty {
	r := g.c.rng.Intn(100)
	switch {
	case r < 20:
		return &lty{kind: "scalar", sc: g.scalar(true)}
	case r < 25:
		return &lty{kind: "atomic", sc: g.c.pick("i32", "u32")}
	case r < 45:
		return &lty{kind: "vec", n: 2 + g.c.rng.Intn(3), sc: g.scalar(true)}
	case r < 60:
		sc := "f32"
		if g.f16 && g.c.chance(0.25) {
			sc = "f16"
		}
		return &lty{kind: "mat", c: 2 + g.c.rng.Intn(3), r: 2 + g.c.rng.Intn(3), sc: sc}
	case r < 78 && depth > 0:
		return &lty{kind: "arr", elem: g.ty(depth-1, false), count: 1 + g.c.rng.Intn(5)}
	case depth > 0:
		return g.strct(depth-1, false)
	default:
		return &lty{kind: "vec", n: 2 + g.c.rng.Intn(3), sc: "f32"}
	}
}

func (g *c07gen) strct(depth int, top bool) *lty {
	s := &lty{kind: "struct", name: fmt.Sprintf("S%d", len(g.structs))}
	g.structs = append(g.structs, s) // reserve name (outer first); emitted in any order
	n := 1 + g.c.rng.Intn(8)
	for i := 0; i < n; i++ {
		m := lmember{ty: g.ty(depth, false)}
		if g.c.chance(0.3) {
			m.align = m.ty.alignOf() << uint(g.c.rng.Intn(3))
		}
		if g.c.chance(0.25) {
			m.size = m.ty.sizeOf() + 4*g.c.rng.Intn(5)
		}
		s.members = append(s.members, m)
	}
	if top && g.c.chance(0.2) {
		el := g.ty(depth, false)
		s.members = append(s.members, lmember{ty: &lty{kind: "arr", elem: el, count: 0}})
	}
	return s
}

func (t *lty) wgsl() string {
	switch t.kind {
	case "scalar":
		return t.sc
	case "atomic":
		return "atomic<" + t.sc + ">"
	case "vec":
		return fmt.Sprintf("vec%d<%s>", t.n, t.sc)
	case "mat":
		return fmt.Sprintf("mat%dx%d<%s>", t.c, t.r, t.sc)
	case "arr":
		if t.count == 0 {
			return "array<" + t.elem.wgsl() + ">"
		}
		return fmt.Sprintf("array<%s, %d>", t.elem.wgsl(), t.count)
	default:
		return t.name
	}
}

func (t *lty) sexp() string {
	switch t.kind {
	case "scalar":
		return fmt.Sprintf("(scalar %d)", scWidth(t.sc))
	case "atomic":
		return fmt.Sprintf("(atomic %d)", scWidth(t.sc))
	case "vec":
		return fmt.Sprintf("(vec %d %d)", t.n, scWidth(t.sc))
	case "mat":
		return fmt.Sprintf("(mat %d %d %d)", t.c, t.r, scWidth(t.sc))
	case "arr":
		return fmt.Sprintf("(arr %s %d)", t.elem.sexp(), t.count)
	default:
		var b strings.Builder
		b.WriteString("(struct")
		for _, m := range t.members {
			fmt.Fprintf(&b, " (m %s %d %d)", m.ty.sexp(), m.align, m.size)
		}
		b.WriteString(")")
		return b.String()
	}
}

// A path from the buffer variable down to one scalar (or atomic) leaf.
type lpath struct {
	wgsl string // e.g. ".m1[2].m0[1].y"
	sexp string // (p (m 1) (i 2) (m 0) (x 1) (c 1))
	leaf *lty
}

func (g *c07gen) path(t *lty) lpath {
	var w, s strings.Builder
	s.WriteString("(p")
	for {
		switch t.kind {
		case "struct":
			k := g.c.rng.Intn(len(t.members))
			fmt.Fprintf(&w, ".m%d", k)
			fmt.Fprintf(&s, " (m %d)", k)
			t = t.members[k].ty
			continue
		case "arr":
			n := t.count
			if n == 0 {
				n = 4
			}
			k := g.c.rng.Intn(n)
			fmt.Fprintf(&w, "[%d]", k)
			fmt.Fprintf(&s, " (i %d)", k)
			t = t.elem
			continue
		case "mat":
			k := g.c.rng.Intn(t.c)
			fmt.Fprintf(&w, "[%d]", k)
			fmt.Fprintf(&s, " (x %d)", k)
			t = &lty{kind: "vec", n: t.r, sc: t.sc}
			continue
		case "vec":
			k := g.c.rng.Intn(t.n)
			fmt.Fprintf(&w, ".%c", "xyzw"[k])
			fmt.Fprintf(&s, " (c %d)", k)
			t = &lty{kind: "scalar", sc: t.sc}
			continue
		}
		break
	}
	s.WriteString(")")
	return lpath{wgsl: w.String(), sexp: s.String(), leaf: t}
}

func (p lpath) store() string {
	lit := map[string]string{"f32": "1.0", "i32": "1i", "u32": "1u", "f16": "1.0h"}[p.leaf.sc]
	if p.leaf.kind == "atomic" {
		return fmt.Sprintf("atomicStore(&buf%s, %s);", p.wgsl, lit)
	}
	return fmt.Sprintf("buf%s = %s;", p.wgsl, lit)
}

func (g *c07gen) source(top *lty, space string) string {
	var b strings.Builder
	g.c.attrConsts = map[int]bool{}
	defer func() { g.c.attrConsts = nil }()
	if g.f16 {
		b.WriteString("enable f16;\n")
	}
	// declare structs in reverse creation order sometimes, forward otherwise (order is irrelevant in WGSL)
	order := make([]*lty, len(g.structs))
	copy(order, g.structs)
	if g.c.chance(0.5) {
		for i, j := 0, len(order)-1; i < j; i, j = i+1, j-1 {
			order[i], order[j] = order[j], order[i]
		}
	}
	for _, s := range order {
		fmt.Fprintf(&b, "struct %s {\n", s.name)
		for i, m := range s.members {
			b.WriteString("  ")
			if m.align != 0 {
				fmt.Fprintf(&b, "@align(%s) ", g.c.attrNum(int(m.align)))
			}
			if m.size != 0 {
				fmt.Fprintf(&b, "@size(%s) ", g.c.attrNum(int(m.size)))
			}
			fmt.Fprintf(&b, "m%d: %s,\n", i, m.ty.wgsl())
		}
		b.WriteString("}\n")
	}
	fmt.Fprintf(&b, "@group(0) @binding(0) var<%s> buf: %s;\n", space, top.wgsl())
	b.WriteString("@group(0) @binding(1) var<storage, read_write> sink: array<u32>;\n")
	b.WriteString("@compute @workgroup_size(1) fn main() {\n  sink[0] = arrayLength(&sink);\n")
	for _, p := range g.paths {
		b.WriteString("  " + p.store() + "\n")
	}
	b.WriteString("}\n")
	b.WriteString(g.c.attrPrelude())
	return b.String()
}

// irDump mirrors Naga.Layout.nagaDump on the real IR.
func irDump(m *ir.Module, h ir.TypeHandle, out *[]uint32) {
	switch t := m.Types[h].Inner.(type) {
	case ir.ArrayType:
		*out = append(*out, t.Stride)
		irDump(m, t.Base, out)
	case ir.StructType:
		*out = append(*out, t.Span)
		for _, mem := range t.Members {
			*out = append(*out, mem.Offset)
			irDump(m, mem.Type, out)
		}
	default:
		*out = append(*out, ir.TypeSize(m, h))
	}
}

// spvDump: member offsets, array strides, matrix strides as decorated in the binary.
func spvDump(x *spvIndex, id uint32, out *[]uint32) error {
	in, ok := x.def[id]
	if !ok {
		return fmt.Errorf("type %d undefined", id)
	}
	switch in.Op {
	case spvOpTypeArray, spvOpTypeRuntimeArray:
		st, ok := x.dec[id][spvDecArrayStride]
		if !ok {
			return fmt.Errorf("array type %d has no ArrayStride", id)
		}
		*out = append(*out, st[0])
		return spvDump(x, in.Words[1], out)
	case spvOpTypeStruct:
		for i, mt := range in.Words[1:] {
			off, ok := x.memberDec[id][uint32(i)][spvDecOffset]
			if !ok {
				return fmt.Errorf("struct %d member %d has no Offset", id, i)
			}
			*out = append(*out, off[0])
			// matrix stride (through arrays)
			base := mt
			for x.def[base].Op == spvOpTypeArray || x.def[base].Op == spvOpTypeRuntimeArray {
				base = x.def[base].Words[1]
			}
			if x.def[base].Op == spvOpTypeMatrix {
				ms, ok := x.memberDec[id][uint32(i)][spvDecMatrixStride]
				if !ok {
					return fmt.Errorf("struct %d member %d (matrix) has no MatrixStride", id, i)
				}
				*out = append(*out, ms[0])
			}
			if err := spvDump(x, mt, out); err != nil {
				return err
			}
		}
	}
	return nil
}

func u32s(xs []uint32) string {
	var b strings.Builder
	b.WriteString("[")
	for i, x := range xs {
		if i > 0 {
			b.WriteString(", ")
		}
		fmt.Fprintf(&b, "%d", x)
	}
	b.WriteString("]")
	return b.String()
}

func cmdC07(c *ctx) {
	for i := 0; i < c.n; i++ {
		g := &c07gen{c: c, f16: c.chance(0.3)}
		depth := 1 + c.rng.Intn(3)
		top := g.strct(depth, true)
		if c.chance(0.25) {
			// a global whose store type is not a struct (SPIR-V wraps it in a synthetic Block struct): a matrix,
			// nested arrays of matrices / vectors / scalars
			g.structs = nil
			var el *lty
			switch c.rng.Intn(4) {
			case 0, 1:
				sc := "f32"
				if g.f16 && c.chance(0.6) {
					sc = "f16"
				}
				el = &lty{kind: "mat", c: 2 + c.rng.Intn(3), r: 2 + c.rng.Intn(3), sc: sc}
			case 2:
				el = &lty{kind: "vec", n: 2 + c.rng.Intn(3), sc: g.scalar(true)}
			default:
				el = g.ty(1, false)
			}
			for k := c.rng.Intn(3); k > 0; k-- {
				el = &lty{kind: "arr", elem: el, count: 1 + c.rng.Intn(4)}
			}
			top = el
			c.count("non-struct-top")
		}
		space := "storage, read_write"
		np := 1 + c.rng.Intn(8)
		ps := ""
		for k := 0; k < np; k++ {
			p := g.path(top)
			g.paths = append(g.paths, p)
			ps += " " + p.sexp
		}
		src := g.source(top, space)
		c.line("cases.txt", fmt.Sprintf("(c07 %s (paths%s))", top.sexp(), ps))
		res, mslDecls := c07run(src, np)
		c.line("impl.txt", res)
		c.line("msl.txt", mslDecls)
		c.line("glsl.txt", c07glsl(src))
		c.line("src.txt", q(src))
		c.count(fmt.Sprintf("depth=%d", depth))
		c.count(fmt.Sprintf("structs=%d", len(g.structs)))
		if g.f16 {
			c.count("f16")
		}
		if strings.HasPrefix(res, "error") {
			c.count("frontend-error")
		}
	}
}

// c07run returns one canonical line: "ir=[..] spv=[..]" or "error <stage>: msg".
func c07run(src string, npaths int) (string, string) {
	ast, err := naga.Parse(src)
	if err != nil {
		return "error parse: " + oneLine(err.Error()), "(none)"
	}
	m, err := naga.LowerWithSource(ast, src)
	if err != nil {
		return "error lower: " + oneLine(err.Error()), "(none)"
	}
	out := c07runIR(m)
	// HLSL: byte offsets of the stores, in statement order
	hs := ""
	if r := guard("hlsl", func() error {
		s, _, err := hlsl.Compile(m, hlsl.DefaultOptions())
		hs = s
		return err
	}); r.err != "" {
		out += " hlsl=error " + oneLine(r.err)
	} else {
		out += " hlsl=" + hlslOffsets(hs, npaths)
	}
	ms := ""
	decls := "(none)"
	if r := guard("msl", func() error {
		s, _, err := msl.Compile(m, msl.DefaultOptions())
		ms = s
		return err
	}); r.err != "" {
		decls = "(error " + q(oneLine(r.err)) + ")"
	} else {
		decls = mslDecls(ms)
	}
	return out, decls
}

var (
	glslStructRe = regexp.MustCompile(`(?s)struct (\w+) \{(.*?)\n\};`)
	glslFieldRe  = regexp.MustCompile(`^\s*(\w+) (\w+)((?:\[\d+\])*);$`)
	glslBlockRe  = regexp.MustCompile(`layout\((std430|std140)[^)]*\)\s*(?:readonly |writeonly )?(?:buffer|uniform) \w+ \{ (\w+) _group_0_binding_0_cs;`)
	glslDimRe    = regexp.MustCompile(`\[(\d+)\]`)
)

// c07glsl: the struct declarations of the GLSL text and the layout qualifier of the block that holds `buf`, as
// (glsl std430|std140 "<type of buf>" (struct name (f ty name d1 d2 …) …) …): the GLSL back end writes no offsets, so the
// layout of the buffer is the one the qualifier prescribes for these declarations.
func c07glsl(src string) string {
	ast, err := naga.Parse(src)
	if err != nil {
		return "(error \"parse\")"
	}
	m, err := naga.LowerWithSource(ast, src)
	if err != nil {
		return "(error \"lower\")"
	}
	text := ""
	if r := guard("glsl", func() error {
		s, _, e := glsl.Compile(m, glsl.Options{LangVersion: glsl.Version430, EntryPoint: "main"})
		text = s
		return e
	}); r.err != "" {
		return "(error " + q(oneLine(r.err)) + ")"
	}
	blk := glslBlockRe.FindStringSubmatch(text)
	if blk == nil {
		return "(error \"no interface block for buf\")"
	}
	var b strings.Builder
	fmt.Fprintf(&b, "(glsl %s %s", blk[1], q(blk[2]))
	for _, st := range glslStructRe.FindAllStringSubmatch(text, -1) {
		fmt.Fprintf(&b, " (struct %s", q(st[1]))
		for _, ln := range strings.Split(st[2], "\n") {
			ln = strings.TrimSpace(ln)
			if ln == "" {
				continue
			}
			f := glslFieldRe.FindStringSubmatch(ln)
			if f == nil {
				fmt.Fprintf(&b, " (unparsed %s)", q(ln))
				continue
			}
			fmt.Fprintf(&b, " (f %s %s", q(f[1]), q(f[2]))
			for _, d := range glslDimRe.FindAllStringSubmatch(f[3], -1) {
				b.WriteString(" " + d[1])
			}
			b.WriteString(")")
		}
		b.WriteString(")")
	}
	b.WriteString(")")
	return b.String()
}

var hlslStoreRe = regexp.MustCompile(`\bbuf\.(?:Store[234]?|Interlocked\w+)(?:<\w+>)?\(([0-9+* ]+),`)

// hlslOffsets evaluates the constant byte-address expression of every store to `buf`.
func hlslOffsets(src string, n int) string {
	var offs []uint32
	for _, m := range hlslStoreRe.FindAllStringSubmatch(src, -1) {
		sum := 0
		for _, term := range strings.Split(m[1], "+") {
			prod := 1
			for _, f := range strings.Split(term, "*") {
				v, err := strconv.Atoi(strings.TrimSpace(f))
				if err != nil {
					return "error unparsed address " + q(m[1])
				}
				prod *= v
			}
			sum += prod
		}
		offs = append(offs, uint32(sum))
	}
	if len(offs) != n {
		return fmt.Sprintf("error %d constant-address stores found for %d statements", len(offs), n)
	}
	return u32s(offs)
}

var (
	mslStructRe  = regexp.MustCompile(`(?s)struct (\w+) \{(.*?)\n\};`)
	mslFieldRe   = regexp.MustCompile(`^\s*([\w:]+(?:<[\w:, ]+>)?) (\w+)(?:\[(\d+)\])?;$`)
	mslTypedefRe = regexp.MustCompile(`(?m)^typedef ([\w:]+) (\w+)\[(\d+)\];$`)
	mslBufRe     = regexp.MustCompile(`device ([\w:]+)& buf\b`)
)

// mslDecls: the struct/typedef declarations of the MSL text as an S-expression
// (msl "<type of buf>" (struct name (f ty name len) ...) (typedef name ty len) ...).
func mslDecls(src string) string {
	var b strings.Builder
	top := mslBufRe.FindStringSubmatch(src)
	if top == nil {
		return "(error \"no device T& buf parameter\")"
	}
	fmt.Fprintf(&b, "(msl %s", q(top[1]))
	for _, m := range mslStructRe.FindAllStringSubmatch(src, -1) {
		fmt.Fprintf(&b, " (struct %s", q(m[1]))
		for _, ln := range strings.Split(m[2], "\n") {
			ln = strings.TrimSpace(ln)
			if ln == "" {
				continue
			}
			f := mslFieldRe.FindStringSubmatch(ln)
			if f == nil {
				fmt.Fprintf(&b, " (unparsed %s)", q(ln))
				continue
			}
			n := 0
			if f[3] != "" {
				n, _ = strconv.Atoi(f[3])
			}
			fmt.Fprintf(&b, " (f %s %s %d)", q(f[1]), q(f[2]), n)
		}
		b.WriteString(")")
	}
	for _, m := range mslTypedefRe.FindAllStringSubmatch(src, -1) {
		n, _ := strconv.Atoi(m[3])
		fmt.Fprintf(&b, " (typedef %s %s %d)", q(m[2]), q(m[1]), n)
	}
	b.WriteString(")")
	return b.String()
}

func c07runIR(m *ir.Module) string {
	var top ir.TypeHandle
	found := false
	for _, gv := range m.GlobalVariables {
		if gv.Name == "buf" {
			top, found = gv.Type, true
		}
	}
	if !found {
		return "error lower: no buf variable"
	}
	var err error
	var ird []uint32
	irDump(m, top, &ird)
	out := "ir=" + u32s(ird)

	// SPIR-V
	bin, err := naga.GenerateSPIRV(m, spirv.Options{Version: spirv.Version1_3})
	if err != nil {
		return out + " spv=error " + oneLine(err.Error())
	}
	sm, err := decodeSPV(bin)
	if err != nil {
		return out + " spv=error " + err.Error()
	}
	x := indexSPV(sm)
	var spvTop uint32
	for _, in := range sm.Insts {
		if in.Op == spvOpVariable {
			id := in.Words[1]
			if b, ok := x.dec[id][spvDecBinding]; ok && b[0] == 0 {
				ptr := x.def[in.Words[0]]
				spvTop = ptr.Words[2]
			}
		}
	}
	var sd []uint32
	if err := spvDump(x, spvTop, &sd); err != nil {
		return out + " spv=error " + err.Error()
	}
	out += " spv=" + u32s(sd)
	return out
}

func oneLine(s string) string {
	s = strings.ReplaceAll(s, "\n", " | ")
	s = strings.ReplaceAll(s, "\r", " ")
	return s
}

func init() { commands["c07"] = cmdC07 }
