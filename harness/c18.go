package main

// C18 — DXIL container / bitcode.  Op sequences for the real bitcode.Writer and
// container.Container (through the verif hooks), byte strings for the hashes, and whole
// dxil.Compile outputs for the Lean reader.

import (
	"encoding/hex"
	"fmt"
	"os"
	"path/filepath"
	"sort"
	"strings"

	"github.com/gogpu/naga"
	"github.com/gogpu/naga/dxil"
	"github.com/gogpu/naga/ir"
)

type bcItem struct {
	rec      bool
	code     uint64
	ops      []uint64
	id, alen uint64
	items    []bcItem
}

func (c *ctx) vbrValue() uint64 {
	switch c.rng.Intn(6) {
	case 0:
		return uint64(c.rng.Intn(4))
	case 1:
		return uint64(c.rng.Intn(64))
	case 2:
		return uint64(c.rng.Intn(1 << 16))
	case 3:
		return uint64(c.rng.Uint32())
	case 4:
		return c.rng.Uint64()
	default:
		b := []uint64{0, 1, 31, 32, 33, 63, 64, 1<<32 - 1, 1 << 32, 1<<63 - 1, 1 << 63, 1<<64 - 1}
		return b[c.rng.Intn(len(b))]
	}
}

func (c *ctx) bcTree(depth int) []bcItem {
	n := c.rng.Intn(5)
	var out []bcItem
	for i := 0; i < n; i++ {
		if depth > 0 && c.chance(0.35) {
			out = append(out, bcItem{id: uint64(c.rng.Intn(300)), alen: uint64(2 + c.rng.Intn(6)), items: c.bcTree(depth - 1)})
		} else {
			k := c.rng.Intn(6)
			ops := make([]uint64, k)
			for j := range ops {
				ops[j] = c.vbrValue()
			}
			out = append(out, bcItem{rec: true, code: uint64(c.rng.Intn(100)), ops: ops})
		}
	}
	return out
}

func bcRender(items []bcItem) string {
	var parts []string
	for _, it := range items {
		if it.rec {
			ops := make([]string, len(it.ops))
			for i, o := range it.ops {
				ops[i] = fmt.Sprint(o)
			}
			parts = append(parts, fmt.Sprintf("(record %d [%s])", it.code, strings.Join(ops, ", ")))
		} else {
			parts = append(parts, fmt.Sprintf("(block %d %d [%s])", it.id, it.alen, bcRender(it.items)))
		}
	}
	return strings.Join(parts, " ")
}

func bcOps(items []bcItem, b *strings.Builder) {
	for _, it := range items {
		if it.rec {
			fmt.Fprintf(b, " (record %d (", it.code)
			for i, o := range it.ops {
				if i > 0 {
					b.WriteByte(' ')
				}
				fmt.Fprint(b, o)
			}
			b.WriteString("))")
		} else {
			fmt.Fprintf(b, " (enter %d %d)", it.id, it.alen)
			bcOps(it.items, b)
			b.WriteString(" (exit)")
		}
	}
}

func bcExec(w *dxil.VerifBitcodeWriter, items []bcItem) {
	for _, it := range items {
		if it.rec {
			w.EmitRecord(uint(it.code), it.ops)
		} else {
			w.EnterBlock(uint(it.id), uint(it.alen))
			bcExec(w, it.items)
			w.ExitBlock()
		}
	}
}

func safely(f func() string) (out string) {
	defer func() {
		if r := recover(); r != nil {
			out = "panic: " + oneLine(fmt.Sprint(r))
		}
	}()
	return f()
}

func (c *ctx) randBytes(n int) []byte {
	b := make([]byte, n)
	c.rng.Read(b)
	return b
}

func cmdC18(c *ctx) {
	// 1. well-formed block/record trees: bytes + independent reader must recover the tree
	for i := 0; i < c.n; i++ {
		abbrev := uint(2 + c.rng.Intn(4))
		tree := c.bcTree(3)
		var b strings.Builder
		fmt.Fprintf(&b, "(bc %d", abbrev)
		bcOps(tree, &b)
		b.WriteString(")")
		c.line("cases.txt", b.String())
		res := safely(func() string {
			w := dxil.VerifNewBitcodeWriter(abbrev)
			bcExec(w, tree)
			return hex.EncodeToString(w.Bytes())
		})
		c.line("impl.txt", res)
		c.count("bc-tree")
		if !strings.HasPrefix(res, "panic") {
			c.line("cases.txt", fmt.Sprintf("(read %d \"%s\")", abbrev, res))
			c.line("impl.txt", "["+bcRender(tree)+"]")
			c.count("bc-read")
		}
	}
	// 2. raw primitive sequences within the documented preconditions
	for i := 0; i < c.n; i++ {
		abbrev := uint(2 + c.rng.Intn(4))
		k := 1 + c.rng.Intn(30)
		var b strings.Builder
		fmt.Fprintf(&b, "(bc %d", abbrev)
		type op struct {
			kind string
			v    uint64
			w    uint
		}
		var ops []op
		for j := 0; j < k; j++ {
			switch c.rng.Intn(6) {
			case 0:
				w := uint(1 + c.rng.Intn(32))
				v := uint64(c.rng.Uint32()) & (1<<w - 1)
				ops = append(ops, op{"bits", v, w})
			case 1:
				w := uint(c.rng.Intn(33))
				v := uint64(c.rng.Uint32())
				if w < 32 {
					v &= 1<<w - 1
				}
				ops = append(ops, op{"fixed", v, w})
			case 2, 3:
				ops = append(ops, op{"vbr", c.vbrValue(), uint(2 + c.rng.Intn(31))})
			case 4:
				const cs = "abcxyzABCXYZ0189._"
				ops = append(ops, op{"char6", uint64(cs[c.rng.Intn(len(cs))]), 0})
			default:
				ops = append(ops, op{"align", 0, 0})
			}
		}
		for _, o := range ops {
			switch o.kind {
			case "char6", "align":
				if o.kind == "align" {
					b.WriteString(" (align)")
				} else {
					fmt.Fprintf(&b, " (char6 %d)", o.v)
				}
			default:
				fmt.Fprintf(&b, " (%s %d %d)", o.kind, o.v, o.w)
			}
		}
		b.WriteString(")")
		c.line("cases.txt", b.String())
		c.line("impl.txt", safely(func() string {
			w := dxil.VerifNewBitcodeWriter(abbrev)
			for _, o := range ops {
				switch o.kind {
				case "bits":
					w.WriteBits(uint32(o.v), o.w)
				case "fixed":
					w.WriteFixed(o.v, o.w)
				case "vbr":
					w.WriteVBR(o.v, o.w)
				case "char6":
					w.WriteChar6(byte(o.v))
				case "align":
					w.Align32()
				}
			}
			return hex.EncodeToString(w.Bytes())
		}))
		c.count("bc-raw")
	}
	// 3. signed VBR and char6
	svals := []int64{0, 1, -1, 2, -2, 63, -64, 1<<31 - 1, -1 << 31, 1<<62 + 5, -(1<<62 + 5), 1<<63 - 1, -1<<63 + 1, -1 << 63}
	for i := 0; i < c.n/4; i++ {
		svals = append(svals, int64(c.rng.Uint64()))
	}
	for _, v := range svals {
		c.line("cases.txt", fmt.Sprintf("(svbr %d)", v))
		c.line("impl.txt", fmt.Sprint(dxil.VerifEncodeSignedVBR(v)))
		c.count("svbr")
	}
	for ch := 0; ch < 256; ch++ {
		c.line("cases.txt", fmt.Sprintf("(char6enc %d)", ch))
		r := safely(func() string { return fmt.Sprint(dxil.VerifEncodeChar6(byte(ch))) })
		if strings.HasPrefix(r, "panic") {
			r = "panic"
		}
		c.line("impl.txt", r)
		c.count("char6")
	}
	// 4. containers from random part lists
	for i := 0; i < c.n/2; i++ {
		np := c.rng.Intn(7)
		var b strings.Builder
		b.WriteString("(cont")
		ct := dxil.VerifNewContainer()
		withHash := false
		for j := 0; j < np; j++ {
			switch c.rng.Intn(4) {
			case 0:
				kind, maj, min := uint32(c.rng.Intn(15)), uint32(6), uint32(c.rng.Intn(9))
				bc := c.randBytes(4 * c.rng.Intn(40))
				fmt.Fprintf(&b, " (dxil %d %d %d %s)", kind, maj, min, qhex(bc))
				ct.AddDXILPart(kind, maj, min, bc)
			case 1:
				f := c.rng.Uint64()
				fmt.Fprintf(&b, " (feat %d)", f)
				ct.AddFeaturesPart(f)
			case 2:
				b.WriteString(" (hash)")
				ct.AddHashPart()
				withHash = true
			default:
				cc := c.rng.Uint32()
				d := c.randBytes(c.rng.Intn(50))
				fmt.Fprintf(&b, " (raw %d %s)", cc, qhex(d))
				ct.AddRawPart(cc, d)
			}
		}
		b.WriteString(")")
		_ = withHash
		c.line("cases.txt", b.String())
		bytes := ct.Bytes()
		c.line("impl.txt", hex.EncodeToString(bytes))
		c.count("container")
		// independent reader on the real bytes must recover the parts
		c.line("cases.txt", "(contread "+qhex(bytes)+")")
		c.line("impl.txt", fmt.Sprintf("parts=%d size=%d", np, len(bytes)))
		// retail hash of the real container
		cp := append([]byte(nil), bytes...)
		c.line("cases.txt", "(retail "+qhex(bytes)+")")
		dxil.VerifComputeRetailHash(cp)
		c.line("impl.txt", hex.EncodeToString(cp))
		c.count("retail-container")
	}
	// 5. retail hash / md5 on byte strings of every length class (boundaries around 56/64)
	lens := []int{20, 21, 22, 75, 76, 83, 84, 85, 139, 140, 147, 148, 149, 203, 204}
	for i := 0; i < c.n/2; i++ {
		lens = append(lens, 20+c.rng.Intn(400))
	}
	for _, n := range lens {
		d := c.randBytes(n)
		c.line("cases.txt", "(retail "+qhex(d)+")")
		cp := append([]byte(nil), d...)
		dxil.VerifComputeRetailHash(cp)
		c.line("impl.txt", hex.EncodeToString(cp))
		c.count("retail")
	}
	for i := 0; i < c.n/2; i++ {
		// container with DXIL + HASH: WriteShaderHashPart = md5(bitcode) into HASH body
		ct := dxil.VerifNewContainer()
		bc := c.randBytes(4 * c.rng.Intn(60))
		hashFirst := c.chance(0.5)
		if hashFirst {
			ct.AddHashPart()
		}
		ct.AddDXILPart(5, 6, 0, bc)
		if !hashFirst {
			ct.AddHashPart()
		}
		bytes := ct.Bytes()
		c.line("cases.txt", fmt.Sprintf("(shaderhash %s)", qhex(bytes)))
		if err := dxil.VerifWriteShaderHashPart(bytes); err != nil {
			c.line("impl.txt", "error "+oneLine(err.Error()))
		} else {
			c.line("impl.txt", hex.EncodeToString(bytes))
		}
		c.count("shaderhash")
	}
	// 6. whole dxil.Compile outputs (corpus shaders) through the Lean container + bitstream reader
	files, _ := filepath.Glob(filepath.Join(repoDir(), "snapshot", "testdata", "in", "*.wgsl"))
	sort.Strings(files)
	maxBlobs := 25
	if c.tier == "thorough" {
		maxBlobs = len(files)
	}
	c.rng.Shuffle(len(files), func(i, j int) { files[i], files[j] = files[j], files[i] })
	nb := 0
	for _, f := range files {
		if nb >= maxBlobs {
			break
		}
		src, err := os.ReadFile(f)
		if err != nil {
			continue
		}
		m := lowerQuiet(string(src))
		if m == nil || len(m.EntryPoints) == 0 {
			continue
		}
		minor := uint32(c.rng.Intn(7))
		bypass := c.chance(0.3)
		var out []byte
		res := safely(func() string {
			var err error
			out, err = dxil.Compile(m, dxil.Options{ShaderModel: dxil.ShaderModel{Major: 6, Minor: minor}, UseBypassHash: bypass})
			if err != nil {
				return "error " + oneLine(err.Error())
			}
			return "ok"
		})
		if res != "ok" {
			c.count("blob-" + strings.SplitN(res, " ", 2)[0])
			if strings.HasPrefix(res, "panic") {
				c.line("cases.txt", "(note "+q(filepath.Base(f))+")")
				c.line("impl.txt", res)
			}
			continue
		}
		// determinism: compile again
		out2, _ := dxil.Compile(m, dxil.Options{ShaderModel: dxil.ShaderModel{Major: 6, Minor: minor}, UseBypassHash: bypass})
		det := "det"
		if hex.EncodeToString(out) != hex.EncodeToString(out2) {
			det = "NONDET"
		}
		kind := stageKind(m.EntryPoints[0].Stage)
		by := 0
		if bypass {
			by = 1
		}
		c.line("cases.txt", fmt.Sprintf("(blob %s %d 6 %d %d %s)", q(filepath.Base(f)), kind, minor, by, qhex(out)))
		c.line("impl.txt", "ok "+det)
		c.count("blob")
		nb++
	}
	// 7. generated graphics entry points with every signature row count (PSV0 tables depend on ceil(rows / 8))
	ngen := 12
	if c.tier == "thorough" {
		ngen = 200
	}
	for i := 0; i < ngen; i++ {
		var src, label string
		if c.chance(0.6) {
			nLoc := c.rng.Intn(16)
			nIn := 1 + c.rng.Intn(4)
			if i < 16 {
				nLoc = i // every output row count 1..16 is covered in each run
			}
			var members, assigns, ins strings.Builder
			for k := 0; k < nLoc; k++ {
				fmt.Fprintf(&members, "    @location(%d) v%d: vec4<f32>,\n", k, k)
				fmt.Fprintf(&assigns, "    o.v%d = a0 * %d.0;\n", k, k+1)
			}
			for k := 0; k < nIn; k++ {
				if k > 0 {
					ins.WriteString(", ")
				}
				fmt.Fprintf(&ins, "@location(%d) a%d: vec4<f32>", k, k)
			}
			src = fmt.Sprintf("struct VOut {\n    @builtin(position) pos: vec4<f32>,\n%s}\n@vertex\nfn vs_main(%s) -> VOut {\n    var o: VOut;\n    o.pos = a0;\n%s    return o;\n}\n", members.String(), ins.String(), assigns.String())
			label = fmt.Sprintf("gen-vertex-in%d-out%d", nIn, nLoc+1)
		} else {
			n := 1 + c.rng.Intn(8)
			var members, assigns strings.Builder
			for k := 0; k < n; k++ {
				fmt.Fprintf(&members, "    @location(%d) c%d: vec4<f32>,\n", k, k)
				fmt.Fprintf(&assigns, "    o.c%d = a * %d.0;\n", k, k+1)
			}
			src = fmt.Sprintf("struct FOut {\n%s}\n@fragment\nfn fs_main(@location(0) a: vec4<f32>) -> FOut {\n    var o: FOut;\n%s    return o;\n}\n", members.String(), assigns.String())
			label = fmt.Sprintf("gen-fragment-targets%d", n)
		}
		m := lowerQuiet(src)
		if m == nil || len(m.EntryPoints) == 0 {
			c.count("gen-graphics-rejected")
			continue
		}
		minor := uint32(c.rng.Intn(7))
		bypass := c.chance(0.3)
		var out []byte
		res := safely(func() string {
			var err error
			out, err = dxil.Compile(m, dxil.Options{ShaderModel: dxil.ShaderModel{Major: 6, Minor: minor}, UseBypassHash: bypass})
			if err != nil {
				return "error " + oneLine(err.Error())
			}
			return "ok"
		})
		if res != "ok" {
			c.count("gen-graphics-" + strings.SplitN(res, " ", 2)[0])
			continue
		}
		by := 0
		if bypass {
			by = 1
		}
		c.line("cases.txt", fmt.Sprintf("(blob %s %d 6 %d %d %s)", q(label), stageKind(m.EntryPoints[0].Stage), minor, by, qhex(out)))
		c.line("impl.txt", "ok det")
		c.count("blob-generated-graphics")
	}
}

// D3D shader kinds (DXIL spec: D3D11_SB_SHADER_TYPE / DXIL::ShaderKind).
func stageKind(s ir.ShaderStage) int {
	switch s {
	case ir.StageFragment:
		return 0
	case ir.StageVertex:
		return 1
	case ir.StageCompute:
		return 5
	case ir.StageMesh:
		return 13
	case ir.StageTask:
		return 14
	}
	return -1
}

func qhex(b []byte) string { return "\"" + hex.EncodeToString(b) + "\"" }

func repoDir() string {
	if d := os.Getenv("VERIF_REPO"); d != "" {
		return d
	}
	return "/repo"
}

func lowerQuiet(src string) (m *ir.Module) {
	defer func() {
		if r := recover(); r != nil {
			m = nil
		}
	}()
	ast, err := naga.Parse(src)
	if err != nil {
		return nil
	}
	mod, err := naga.LowerWithSource(ast, src)
	if err != nil {
		return nil
	}
	return mod
}

func init() { commands["c18"] = cmdC18 }

// c18res: the PSV0 resource table against the caller's binding map.  Compute modules with 1–5 buffer resources at random
// (group, binding); a random dxil.BindingMap moves some of them to other (space, register) pairs — what a D3D12 host does.
// Every resource the entry point uses must be recorded at the map's target, or at its WGSL numbers when the map has no entry.
func cmdC18Res(c *ctx) {
	for i := 0; i < c.n; i++ {
		n := 1 + c.rng.Intn(5)
		var b strings.Builder
		used := map[[2]int]bool{}
		bm := dxil.BindingMap{}
		var want []string
		body := "  var acc = 0u;\n"
		b.WriteString("struct UB { a: vec4<u32>, }\n")
		for j := 0; j < n; j++ {
			var g, bd int
			for {
				g, bd = c.rng.Intn(4), c.rng.Intn(8)
				if !used[[2]int{g, bd}] {
					used[[2]int{g, bd}] = true
					break
				}
			}
			switch c.rng.Intn(3) {
			case 0:
				fmt.Fprintf(&b, "@group(%d) @binding(%d) var<uniform> r%d: UB;\n", g, bd, j)
				body += fmt.Sprintf("  acc += r%d.a.x;\n", j)
			case 1:
				fmt.Fprintf(&b, "@group(%d) @binding(%d) var<storage, read> r%d: array<u32>;\n", g, bd, j)
				body += fmt.Sprintf("  acc += r%d[0];\n", j)
			default:
				fmt.Fprintf(&b, "@group(%d) @binding(%d) var<storage, read_write> r%d: array<u32>;\n", g, bd, j)
				body += fmt.Sprintf("  r%d[1] = acc;\n", j)
			}
			space, reg := g, bd
			if c.chance(0.6) {
				space, reg = c.rng.Intn(3), 20+j+c.rng.Intn(3)*8 // registers 20.. : no two targets collide, none collides with a WGSL number
				bm[dxil.BindingLocation{Group: uint32(g), Binding: uint32(bd)}] = dxil.BindTarget{Space: uint32(space), Register: uint32(reg)}
			}
			want = append(want, fmt.Sprintf("%d:%d", space, reg))
		}
		// everything read reaches this buffer, so no resource is dead
		b.WriteString("@group(3) @binding(15) var<storage, read_write> sink: array<u32>;\n")
		body += "  sink[0] = acc;\n"
		want = append(want, "3:15")
		src := b.String() + "@compute @workgroup_size(1)\nfn main() {\n" + body + "}\n"
		m := lowerQuiet(src)
		if m == nil {
			c.count("res-frontend-rejected")
			continue
		}
		var out []byte
		res := safely(func() string {
			var err error
			out, err = dxil.Compile(m, dxil.Options{ShaderModel: dxil.ShaderModel{Major: 6, Minor: uint32(c.rng.Intn(7))}, BindingMap: bm})
			if err != nil {
				return "error " + oneLine(err.Error())
			}
			return "ok"
		})
		if res != "ok" {
			c.count("res-" + strings.SplitN(res, " ", 2)[0])
			continue
		}
		sort.Strings(want)
		c.line("cases.txt", fmt.Sprintf("(psvres %s)", qhex(out)))
		c.line("impl.txt", "res "+strings.Join(want, " "))
		c.line("src.txt", q(src)+" "+q(fmt.Sprint(bm)))
		c.count("res")
	}
}

func init() { commands["c18res"] = cmdC18Res }
