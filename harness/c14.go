package main

// C14 — pipeline-overridable constants behave as substituted WGSL constants.
// Modules with override declarations (bool/i32/u32/f32, with and without @id, with and without
// default initialisers over literals, constants and earlier overrides) and a value map are
// resolved by the real ir.ProcessOverrides on a clone; the resolved module is dumped for the Lean
// Core-IR interpreter, next to the reference module in which each override is a `const` holding the
// supplied value (converted to the override's type) or its default initialiser.  The caller's
// module must be unchanged by the resolution.

import (
	"github.com/gogpu/naga/glsl"
	"github.com/gogpu/naga/msl"
	"fmt"
	"math"
	"math/big"
	"os"
	"sort"
	"strings"

	"github.com/gogpu/naga/ir"
)

type ovDecl struct {
	name string
	ty   *wty
	id   int     // -1 = no @id
	init *wexpr  // nil = no default
	how  string  // absent | id | name
	val  float64 // supplied value
	knob string
}

// ovExpr: initialiser expression of type t over literals, named constants and earlier overrides.
func ovExpr(c *ctx, t *wty, prev []ovDecl, depth int, risky bool) *wexpr {
	return ovExpr2(c, t, prev, depth, risky, risky)
}

// ovExpr2: `ops` enables operators outside + - *, `big` enables boundary/random 32-bit literals.
func ovExpr2(c *ctx, t *wty, prev []ovDecl, depth int, allOps, big bool) *wexpr {
	risky := allOps
	leaf := func() *wexpr {
		var cands []ovDecl
		for _, p := range prev {
			if p.ty.eq(t) {
				cands = append(cands, p)
			}
		}
		if len(cands) > 0 && c.chance(0.5) {
			p := cands[c.rng.Intn(len(cands))]
			return &wexpr{k: "var", ty: t, name: p.name, konst: true}
		}
		switch t.k {
		case "bool":
			return lit32(t, uint32(c.rng.Intn(2)))
		case "f32":
			return lit32(t, uint32(int32(c.rng.Intn(17)-8)))
		}
		if big {
			return lit32(t, c.operand32())
		}
		return lit32(t, uint32(c.rng.Intn(50)))
	}
	if depth <= 0 || c.chance(0.3) {
		return leaf()
	}
	switch t.k {
	case "bool":
		if risky && c.chance(0.5) {
			ot := []*wty{tI32, tU32}[c.rng.Intn(2)]
			return &wexpr{k: "bin", ty: t, op: c.pick("==", "!=", "<", ">="), args: []*wexpr{ovExpr2(c, ot, prev, depth-1, allOps, big), ovExpr2(c, ot, prev, depth-1, allOps, big)}, konst: true}
		}
		if risky && c.chance(0.5) {
			return &wexpr{k: "un", ty: t, op: "!", args: []*wexpr{ovExpr2(c, t, prev, depth-1, allOps, big)}, konst: true}
		}
		return leaf()
	case "f32":
		return &wexpr{k: "bin", ty: t, op: c.pick("+", "-", "*"), args: []*wexpr{leaf(), leaf()}, konst: true}
	}
	ops := []string{"+", "-", "*"}
	if risky {
		ops = []string{"+", "-", "*", "/", "%", "&", "|", "^", "<<", ">>"}
	}
	op := ops[c.rng.Intn(len(ops))]
	if op == "<<" || op == ">>" {
		return &wexpr{k: "bin", ty: t, op: op, args: []*wexpr{ovExpr2(c, t, prev, depth-1, allOps, big), lit32(tU32, uint32(c.rng.Intn(8)))}, konst: true}
	}
	if risky && c.chance(0.15) && t.k == "i32" {
		return &wexpr{k: "un", ty: t, op: c.pick("-", "~"), args: []*wexpr{ovExpr2(c, t, prev, depth-1, allOps, big)}, konst: true}
	}
	b := ovExpr2(c, t, prev, depth-1, allOps, big)
	if op == "/" || op == "%" {
		b = lit32(t, uint32(1+c.rng.Intn(9)))
	}
	return &wexpr{k: "bin", ty: t, op: op, args: []*wexpr{ovExpr2(c, t, prev, depth-1, allOps, big), b}, konst: true}
}

// ovLiteral: the supplied value converted to the override's type, as a literal of the reference
// program; ok=false when the value is not representable (WebGPU: pipeline-creation error).
// Integers follow WebIDL's [EnforceRange] conversion (as upstream naga's map_value_to_literal does): a
// non-finite value is an error, a finite one is truncated toward zero and must then lie in the type's range —
// 1.5 is 1 and -2.5 is -2, not errors.
func ovLiteral(t *wty, v float64) (*wexpr, bool) {
	switch t.k {
	case "bool":
		if math.IsNaN(v) || v == 0 {
			return lit32(t, 0), true
		}
		return lit32(t, 1), true
	case "i32":
		if math.IsNaN(v) || math.IsInf(v, 0) {
			return nil, false
		}
		v = math.Trunc(v)
		if v < -2147483648 || v > 2147483647 {
			return nil, false
		}
		return lit32(t, uint32(int32(v))), true
	case "u32":
		if math.IsNaN(v) || math.IsInf(v, 0) {
			return nil, false
		}
		v = math.Trunc(v)
		if v < 0 || v > 4294967295 {
			return nil, false
		}
		return lit32(t, uint32(v)), true
	default: // f32: generator only supplies small integral values (literal payload = integral value)
		if v != math.Trunc(v) || math.Abs(v) > 1000 {
			return nil, false
		}
		return lit32(t, uint32(int32(v))), true
	}
}

// intOverflows: does any integer sub-expression of e, evaluated exactly (unbounded integers, operands wrapped to
// their 32-bit type as WGSL does), leave the range of its type?  This is the decidable shape of the recorded defect
// "resolution folds integer expressions in float64 and converts the result": a case without such an overflow is
// computed exactly by a float64 evaluator and must agree.  env holds the values of the overrides / constants by name.
func intOverflows(e *wexpr, env map[string]*big.Int) bool {
	_, ovf := intEval(e, env)
	return ovf
}

// intEval: the wrapped value of an integer expression (nil outside the evaluated fragment) and the overflow flag.
func intEval(e *wexpr, env map[string]*big.Int) (*big.Int, bool) {
	ovf := false
	var ev func(e *wexpr) *big.Int
	wrap := func(t *wty, v *big.Int) *big.Int {
		m := new(big.Int).And(v, big.NewInt(0xffffffff)) // two's complement low word (big.Int And on negatives is two's complement)
		if t.k == "i32" && m.Cmp(big.NewInt(0x7fffffff)) > 0 {
			m.Sub(m, big.NewInt(1<<32))
		}
		return m
	}
	inRange := func(t *wty, v *big.Int) bool {
		if t.k == "i32" {
			return v.Cmp(big.NewInt(-1<<31)) >= 0 && v.Cmp(big.NewInt(1<<31-1)) <= 0
		}
		return v.Sign() >= 0 && v.Cmp(big.NewInt(1<<32-1)) <= 0
	}
	ev = func(e *wexpr) *big.Int {
		if e == nil {
			return nil
		}
		var args []*big.Int
		for _, a := range e.args {
			args = append(args, ev(a)) // visit every sub-expression, whatever the node
		}
		if e.ty == nil || !e.ty.isInt() {
			return nil
		}
		switch e.k {
		case "lit":
			if e.ty.k == "i32" {
				return big.NewInt(int64(int32(e.bits)))
			}
			return big.NewInt(int64(e.bits))
		case "var":
			if v, ok := env[e.name]; ok {
				return v
			}
			return nil
		case "un":
			if args[0] == nil {
				return nil
			}
			switch e.op {
			case "-":
				r := new(big.Int).Neg(args[0])
				if !inRange(e.ty, r) {
					ovf = true
				}
				return wrap(e.ty, r)
			case "~":
				return wrap(e.ty, new(big.Int).Not(args[0]))
			}
			return nil
		case "bin":
			if len(args) != 2 || args[0] == nil || args[1] == nil {
				return nil
			}
			var r *big.Int
			switch e.op {
			case "+":
				r = new(big.Int).Add(args[0], args[1])
			case "-":
				r = new(big.Int).Sub(args[0], args[1])
			case "*":
				r = new(big.Int).Mul(args[0], args[1])
			case "/":
				if args[1].Sign() == 0 {
					return nil
				}
				r = new(big.Int).Quo(args[0], args[1])
			case "%":
				if args[1].Sign() == 0 {
					return nil
				}
				r = new(big.Int).Rem(args[0], args[1])
			case "&":
				r = new(big.Int).And(args[0], args[1])
			case "|":
				r = new(big.Int).Or(args[0], args[1])
			case "^":
				r = new(big.Int).Xor(args[0], args[1])
			default:
				return nil
			}
			if !inRange(e.ty, r) {
				ovf = true
			}
			return wrap(e.ty, r)
		}
		return nil
	}
	v := ev(e)
	return v, ovf
}

// K-tie of the operator tables of Naga.Model.Override with the exported ir.EvalBinaryFloat /
// ir.EvalUnaryFloat on integer operands inside the exact range.
func c14Ops(c *ctx) {
	for i := 0; i < 400; i++ {
		a, b := int64(c.rng.Intn(2000001)-1000000), int64(c.rng.Intn(2001)-1000)
		ops := []ir.BinaryOperator{ir.BinaryAdd, ir.BinarySubtract, ir.BinaryMultiply, ir.BinaryModulo, ir.BinaryAnd, ir.BinaryInclusiveOr,
			ir.BinaryExclusiveOr, ir.BinaryShiftLeft, ir.BinaryShiftRight, ir.BinaryEqual, ir.BinaryLess, ir.BinaryLogicalAnd}
		op := ops[c.rng.Intn(len(ops))]
		r := ir.EvalBinaryFloat(op, float64(a), float64(b))
		c.line("cases.txt", fmt.Sprintf("(evalbin %s %d %d)", binOpNames[op], a, b))
		c.line("impl.txt", fmt.Sprintf("%d", int64(r)))
		c.line("tags.txt", "ops")
		c.line("src.txt", q(""))
		uop := []ir.UnaryOperator{ir.UnaryNegate, ir.UnaryLogicalNot, ir.UnaryBitwiseNot}[c.rng.Intn(3)]
		ru := ir.EvalUnaryFloat(uop, float64(b))
		c.line("cases.txt", fmt.Sprintf("(evalun %s %d)", unOpNames[uop], b))
		c.line("impl.txt", fmt.Sprintf("%d", int64(ru)))
		c.line("tags.txt", "ops")
		c.line("src.txt", q(""))
	}
}

func cmdC14(c *ctx) {
	c14Ops(c)
	for i := 0; i < c.n; i++ {
		knob := "clean"
		switch i % 6 {
		case 3:
			knob = "initops" // default initialisers with / % & | ^ << >> comparisons ! ~ (known finding: float evaluator)
		case 4:
			knob = "boolval" // bool overrides supplied with values other than 0 / 1
		case 5:
			knob = "badval" // supplied values not representable in the override's type
		case 2:
			knob = "bigval" // values/literals whose products exceed 2^32 (known finding: folding in float64)
		}
		// every 24th module (a clean one) sizes a workgroup array by an override; its choices are derived from i, not drawn,
		// so that the other classes see the same random stream as before
		ovarr := i%24 == 6
		if ovarr {
			knob = "ovarr"
		}
		var ovs []ovDecl
		nov := 1 + c.rng.Intn(4)
		usedID := map[int]bool{}
		for j := 0; j < nov; j++ {
			t := []*wty{tI32, tU32, tF32, tBool, tI32, tU32}[c.rng.Intn(6)]
			o := ovDecl{name: fmt.Sprintf("ov%d", j), ty: t, id: -1}
			if c.chance(0.5) {
				o.id = c.rng.Intn(20)
				if usedID[o.id] {
					o.id = -1
				} else {
					usedID[o.id] = true
				}
			}
			if c.chance(0.7) {
				o.init = ovExpr2(c, t, ovs, 2, knob == "initops", knob == "bigval")
			}
			// supplied value
			r := c.rng.Intn(10)
			switch {
			case r < 3 && o.init != nil:
				o.how = "absent"
			case r < 4 && o.init == nil && c.chance(0.3):
				o.how = "absent" // missing value without default: an error is expected
			case r < 7 && o.id >= 0:
				o.how = "id"
			default:
				o.how = "name"
			}
			switch t.k {
			case "bool":
				o.val = float64(c.rng.Intn(2))
				if knob == "boolval" {
					o.val = []float64{2, -1, 0.5, 255, math.NaN()}[c.rng.Intn(5)]
				}
			case "i32":
				o.val = float64(c.rng.Intn(2001) - 1000)
				if knob == "bigval" && c.chance(0.5) {
					o.val = float64(int32(c.operand32()))
				}
				if knob == "badval" && c.chance(0.6) {
					o.val = []float64{3e9, -3e9, 1.5, -2.5, 4294967296, math.Inf(1), -0.75}[c.rng.Intn(7)]
				} else if knob == "clean" && c.chance(0.5) {
					o.val += []float64{0.5, 0.25, 0.75}[c.rng.Intn(3)] * map[bool]float64{true: 1, false: -1}[o.val >= 0] // fractional: truncated
				}
			case "u32":
				o.val = float64(c.rng.Intn(2001))
				if knob == "bigval" && c.chance(0.5) {
					o.val = float64(c.operand32())
				}
				if knob == "badval" && c.chance(0.6) {
					o.val = []float64{-1, 5e9, 2.5, 4294967296, -0.5, 4294967295.5}[c.rng.Intn(6)]
				} else if knob == "clean" && c.chance(0.5) {
					o.val += []float64{0.5, 0.25, 0.75}[c.rng.Intn(3)] // fractional: truncated
				}
			default:
				o.val = float64(c.rng.Intn(17) - 8)
			}
			ovs = append(ovs, o)
		}
		// every 24th module (another clean one) initialises an override from a module-scope constant: `const KC: i32 = v;
		// override ovc: i32 = KC * 3i;` (choices derived from i, as above)
		ovconst := i%24 == 12
		var kcVal *wexpr
		if ovconst {
			knob = "ovconst"
			kcVal = lit32(tI32, uint32(int32(i/24%19-9)))
			kc := &wexpr{k: "var", ty: tI32, name: "KC", konst: true}
			init := kc
			if i/24%2 == 1 {
				init = wBin(tI32, "*", kc, lit32(tI32, 3))
			}
			ovs = append(ovs, ovDecl{name: "ovc", ty: tI32, id: -1, init: init, how: "absent"})
		}
		// and another one initialises an override by a conversion: `override ovv: u32 = u32(<i32 expression>);`
		ovconv := i%24 == 18
		if ovconv {
			knob = "ovconv"
			var arg *wexpr = lit32(tI32, uint32(int32(i/24%19-9)))
			for k := range ovs {
				if ovs[k].ty.k == "i32" && i/24%2 == 1 {
					arg = &wexpr{k: "var", ty: tI32, name: ovs[k].name, konst: true}
				}
			}
			ovs = append(ovs, ovDecl{name: "ovv", ty: tU32, id: -1, init: &wexpr{k: "cast", ty: tU32, args: []*wexpr{arg}}, how: "absent"})
		}
		arrLen := 0
		if ovarr {
			o := ovDecl{name: "ovn", ty: tU32, id: -1, init: lit32(tU32, uint32(1+i/24%8)), how: "absent"}
			arrLen = 1 + i/24%8
			if i/24/8%2 == 1 {
				o.how, o.val = "name", float64(1+(i/24+3)%8)
				arrLen = int(o.val)
			}
			ovs = append(ovs, o)
		}
		// source text with overrides, reference module with consts
		var decls strings.Builder
		ref := &wmodule{wg: 1}
		ref.globals = []*wglobal{{name: "inp", space: "storage_r", ty: tU32, rt: true, binding: 0}, {name: "outp", space: "storage_rw", ty: tU32, rt: true, binding: 1}}
		consts := ir.PipelineConstants{}
		expectErr := ""
		var mapS []string
		// clean class: one module in three spells the i32 literals of its initialisers as abstract ints (small values, + - * only)
		bare := (knob == "clean" && c.chance(0.33)) || (knob == "bigval" && c.chance(0.3))
		// shape of the recorded defect "an unsuffixed integer literal of an override initialiser is stored as an f32
		// literal": some such literal (of an override that takes its default) is not exactly representable in f32
		f32lit := false
		if bare {
			var walkLits func(e *wexpr)
			walkLits = func(e *wexpr) {
				if e == nil {
					return
				}
				if e.k == "lit" && e.ty.k == "i32" {
					// (u32 literals keep their suffix in this spelling)
					v := float64(int32(e.bits))
					if float64(float32(v)) != v {
						f32lit = true
					}
				}
				for _, a := range e.args {
					walkLits(a)
				}
			}
			for _, o := range ovs {
				if o.init != nil {
					walkLits(o.init)
				}
			}
		}
		if ovconst {
			decls.WriteString("const KC: i32 = " + kcVal.wgsl() + ";\n")
			ref.consts = append(ref.consts, &wstmt{k: "const", name: "KC", ty: tI32, e: kcVal})
		}
		for _, o := range ovs {
			if o.id >= 0 {
				// the argument is a const-expression: other spellings of the same number
				idS := fmt.Sprintf("%d", o.id)
				if c.chance(0.4) {
					idS = []string{fmt.Sprintf("%du", o.id), fmt.Sprintf("0x%x", o.id), fmt.Sprintf("(%d)", o.id), fmt.Sprintf("%d + 0", o.id), fmt.Sprintf("%d,", o.id)}[c.rng.Intn(5)]
				}
				fmt.Fprintf(&decls, "@id(%s) ", idS)
			}
			fmt.Fprintf(&decls, "override %s: %s", o.name, o.ty)
			if o.init != nil {
				wBareInts = bare
				decls.WriteString(" = " + o.init.wgsl())
				wBareInts = false
			}
			decls.WriteString(";\n")
			var e *wexpr
			switch o.how {
			case "absent":
				if o.init == nil {
					expectErr = "missing value for " + o.name
					e = lit32(o.ty, 0)
				} else {
					e = o.init
				}
			default:
				key := o.name
				if o.how == "id" {
					key = fmt.Sprint(o.id)
				}
				consts[key] = o.val
				mapS = append(mapS, fmt.Sprintf("%s=%v", key, o.val))
				lit, ok := ovLiteral(o.ty, o.val)
				if !ok {
					if expectErr == "" {
						expectErr = fmt.Sprintf("value %v not representable in %s", o.val, o.ty)
					}
					lit = lit32(o.ty, 0)
				}
				e = lit
			}
			ref.consts = append(ref.consts, &wstmt{k: "const", name: o.name, ty: o.ty, e: e})
		}
		sort.Strings(mapS)
		// body: every override, and an expression over overrides, observed through outp
		var body []*wstmt
		slot := 0
		if ovarr {
			// var<workgroup> warr: array<u32, ovn>; its last element written and read back
			decls.WriteString("var<workgroup> warr: array<u32, ovn>;\n")
			ref.globals = append(ref.globals, &wglobal{name: "warr", space: "workgroup", ty: tArr(arrLen, tU32)})
			elem := func() *wexpr {
				return &wexpr{k: "idx", ty: tU32, args: []*wexpr{{k: "var", ty: tArr(arrLen, tU32), name: "warr"}, lit32(tU32, uint32(arrLen-1))}}
			}
			body = append(body, &wstmt{k: "assign", lhs: elem(), e: wBin(tU32, "+", wInp(1), lit32(tU32, 7))}, wStore(15, elem()))
			c.count("shape:override-sized-workgroup-array")
		}
		for _, o := range ovs {
			v := &wexpr{k: "var", ty: o.ty, name: o.name, konst: true}
			st := encStores(v, o.ty)
			st[0].lhs.args[1].bits = uint32(slot)
			slot++
			body = append(body, st...)
			if o.ty.isInt() {
				// override used inside run-time arithmetic (const-folded after resolution)
				bop := c.pick("+", "-", "/")
				if knob == "bigval" {
					bop = c.pick("+", "*", "-", "*")
				}
				e := &wexpr{k: "bin", ty: o.ty, op: bop, args: []*wexpr{v, {k: "bin", ty: o.ty, op: "+", args: []*wexpr{v, lit32(o.ty, uint32(c.rng.Intn(7)))}}}}
				if bop == "/" {
					// truncating division by a small positive constant (negative dividends included)
					e = &wexpr{k: "bin", ty: o.ty, op: "/", args: []*wexpr{v, lit32(o.ty, uint32(2+c.rng.Intn(8)))}}
				}
				st := encStores(e, o.ty)
				st[0].lhs.args[1].bits = uint32(slot)
				slot++
				body = append(body, st...)
			}
		}
		// a helper function whose locals have constant / override-derived initialisers (exercises the clone of
		// Functions[i].LocalVars[j].Init and rebuildFunctionExpressions on non-entry-point functions)
		helperSrc := ""
		hslot := -1
		if c.chance(0.6) {
			var iov *ovDecl
			for k := range ovs {
				if ovs[k].ty.isInt() {
					iov = &ovs[k]
				}
			}
			if iov != nil {
				t := iov.ty
				ov := &wexpr{k: "var", ty: t, name: iov.name, konst: true}
				if c.chance(0.5) {
					// value-returning helper (known finding: the clone shares StmtReturn.Value with the caller's module)
					hb := []*wstmt{
						{k: "var", name: "ht", ty: t, e: &wexpr{k: "bin", ty: t, op: "+", args: []*wexpr{ov, lit32(t, uint32(1+c.rng.Intn(9)))}}},
						{k: "var", name: "hu", ty: t, e: lit32(t, uint32(c.rng.Intn(50)))},
						{k: "return", e: &wexpr{k: "bin", ty: t, op: "+", args: []*wexpr{{k: "var", ty: t, name: "hx"}, {k: "bin", ty: t, op: "+", args: []*wexpr{{k: "var", ty: t, name: "ht"}, {k: "var", ty: t, name: "hu"}}}}}},
					}
					hf := &wfunc{name: "hfun", params: []wfield{{name: "hx", ty: t}}, ptrs: []bool{false}, ret: t, body: hb}
					ref.funcs = append(ref.funcs, hf)
					helperSrc = hf.wgsl(false, 0)
					call := &wexpr{k: "callfn", ty: t, name: "hfun", args: []*wexpr{lit32(t, uint32(c.rng.Intn(20)))}}
					st := encStores(call, t)
					st[0].lhs.args[1].bits = uint32(slot)
					hslot = slot
					slot++
					body = append(body, st...)
				} else {
					// flat void helper: initialised locals and a store, no pointer-carrying statements
					sum := &wexpr{k: "bin", ty: t, op: "+", args: []*wexpr{{k: "var", ty: t, name: "ht"}, {k: "var", ty: t, name: "hu"}}}
					st := encStores(sum, t)
					st[0].lhs.args[1].bits = uint32(slot)
					slot++
					hb := []*wstmt{
						{k: "var", name: "ht", ty: t, e: &wexpr{k: "bin", ty: t, op: "+", args: []*wexpr{ov, lit32(t, uint32(1+c.rng.Intn(9)))}}},
						{k: "var", name: "hu", ty: t, e: lit32(t, uint32(c.rng.Intn(50)))},
						st[0],
					}
					hf := &wfunc{name: "hflat", body: hb}
					ref.funcs = append(ref.funcs, hf)
					helperSrc = hf.wgsl(false, 0)
					body = append(body, &wstmt{k: "callstmt", e: &wexpr{k: "callfn", ty: t, name: "hflat"}})
				}
				c.count("with-helper")
			}
		}
		ref.entry = &wfunc{name: "main", body: body}
		// shape of the float64-folding defect: an integer expression over the (substituted) overrides overflows 32 bits
		ovf := false
		{
			env := map[string]*big.Int{}
			for _, k := range ref.consts {
				if intOverflows(k.e, env) {
					ovf = true
				}
				if k.ty.isInt() {
					// value of the constant: exact evaluation wrapped to the type (nil when outside the evaluated fragment)
					if val, _ := intEval(k.e, env); val != nil {
						env[k.name] = val
					}
				}
			}
			var walk func(l []*wstmt)
			walk = func(l []*wstmt) {
				for _, st := range l {
					if st.e != nil && intOverflows(st.e, env) {
						ovf = true
					}
					walk(st.body)
					walk(st.els)
				}
			}
			walk(body)
			for _, f := range ref.funcs {
				walk(f.body)
			}
		}
		ovfTag := ""
		if ovf {
			ovfTag = " ovf"
			c.count("shape:int-overflow")
		}
		if f32lit {
			ovfTag += " f32lit"
			c.count("shape:bare-literal-not-f32-exact")
		}
		src := "@group(0) @binding(0) var<storage, read> inp: array<u32>;\n@group(0) @binding(1) var<storage, read_write> outp: array<u32>;\n" +
			decls.String() + helperSrc + ref.entry.wgsl(true, 1)
		c.count("knob:" + knob)
		emit := func(kase, impl string) {
			c.line("cases.txt", kase)
			c.line("impl.txt", impl)
			c.line("tags.txt", fmt.Sprintf("%s hslot=%d%s %s", knob, hslot, ovfTag, strings.Join(mapS, ",")))
			c.line("src.txt", q(src))
		}
		mod, res := frontEnd(src)
		if mod == nil {
			c.count("frontend-rejected")
			emit("(c14skip)", "frontend: "+res[0].err)
			continue
		}
		before := dumpModule(mod)
		clone := ir.CloneModuleForOverrides(mod)
		r := guard("ProcessOverrides", func() error { return ir.ProcessOverrides(clone, consts) })
		after := dumpModule(mod)
		callerChanged := after != before
		if callerChanged && os.Getenv("VERIF_DEBUG") != "" {
			k := 0
			for k < len(after) && k < len(before) && after[k] == before[k] {
				k++
			}
			lo := k - 200
			if lo < 0 {
				lo = 0
			}
			fmt.Fprintf(os.Stderr, "CALLER CHANGED at %d\nbefore: %s\nafter:  %s\n", k, before[lo:min(len(before), k+200)], after[lo:min(len(after), k+200)])
		}
		status := "ok"
		if callerChanged {
			status = "CALLER-MODULE-CHANGED"
		}
		if r.err != "" {
			emit(fmt.Sprintf("(c14err %s)", q(expectErr)), "error "+oneLine(r.err)+" | "+status)
			continue
		}
		if v := validateErr(clone); v != "" {
			status += " invalid: " + oneLine(v)
		}
		inp, outp := make([]uint32, 16), make([]uint32, 16)
		emit(fmt.Sprintf("(c14 (expecterr %s) (ast %s) (ir %s) (inputs %s %s))", q(expectErr), ref.sexp(), dumpModule(clone), wordsSexp(0, inp), wordsSexp(1, outp)), status)
		// the back ends' own pipeline-constant options (msl: its own substitution; glsl: ProcessOverrides on an internal
		// clone): the emitted text, executed, must compute what the substituted reference program computes
		if expectErr == "" && (knob == "clean" || knob == "badval" || knob == "ovarr" || knob == "ovconst" || knob == "ovconv") {
			for _, route := range []string{"msl", "glsl"} {
				m2, _ := frontEnd(src)
				if m2 == nil {
					continue
				}
				var text string
				var rr stageResult
				if route == "msl" {
					o := msl.DefaultOptions()
					o.PipelineConstants = map[string]float64(consts)
					rr = guard("msl", func() error { t, _, err := msl.Compile(m2, o); text = t; return err })
				} else {
					rr = guard("glsl", func() error {
						t, _, err := glsl.Compile(m2, glsl.Options{LangVersion: glsl.Version430, EntryPoint: "main", PipelineConstants: consts})
						text = t
						return err
					})
				}
				tag := fmt.Sprintf("route:%s %s hslot=%d%s %s", route, knob, hslot, ovfTag, strings.Join(mapS, ","))
				routeLine := func(kase string) {
					c.line("route-cases.txt", kase)
					c.line("route-tags.txt", tag)
					c.line("route-src.txt", q(src))
					c.line("route-text.txt", q(text))
					c.count("route:" + route)
				}
				if rr.err != "" {
					routeLine("(routeerr " + q(oneLine(rr.err)) + ")")
					continue
				}
				unit, perr := cparse(text)
				if perr != nil {
					routeLine("(routeerr " + q("emitted text does not parse: "+perr.Error()) + ")")
					continue
				}
				routeLine(cCase(route, ref, unit, inp, outp))
			}
		}
	}
}

func init() { commands["c14"] = cmdC14 }
