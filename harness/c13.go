package main

// C13 — IR-to-IR passes preserve program behaviour.
// For each generated module and each pass: lower afresh, dump the IR before, run the pass on the
// real module, validate the result with naga's own validator, run the pass a second time and
// compare dumps (idempotence), and hand before/after to the Lean Core-IR interpreter together with
// concrete buffer contents.  Corpus shaders get the structural part (validity, idempotence).

import (
	"fmt"
	"os"
	"path/filepath"
	"sort"
	"strings"

	"github.com/gogpu/naga"
	"github.com/gogpu/naga/dxil"
	"github.com/gogpu/naga/ir"
)

type irPass struct {
	name string
	run  func(c *ctx, m *ir.Module, salt int64) (*ir.Module, error)
}

func inPlace(f func(*ir.Module)) func(*ctx, *ir.Module, int64) (*ir.Module, error) {
	return func(_ *ctx, m *ir.Module, _ int64) (*ir.Module, error) { f(m); return m, nil }
}

var irPasses = []irPass{
	{"CompactUnused", inPlace(ir.CompactUnused)},
	{"CompactExpressions", inPlace(ir.CompactExpressions)},
	{"CompactTypes", inPlace(ir.CompactTypes)},
	{"CompactConstants", inPlace(ir.CompactConstants)},
	{"ReorderTypes", inPlace(ir.ReorderTypes)},
	{"DeduplicateEmits", inPlace(ir.DeduplicateEmits)},
	{"InlineAll", func(_ *ctx, m *ir.Module, _ int64) (*ir.Module, error) {
		return m, ir.InlineUserFunctions(m, func(*ir.Function) bool { return true })
	}},
	{"InlineSome", func(_ *ctx, m *ir.Module, salt int64) (*ir.Module, error) {
		// deterministic pseudo-random choice per callee name
		return m, ir.InlineUserFunctions(m, func(f *ir.Function) bool {
			h := salt
			for _, ch := range f.Name {
				h = h*31 + int64(ch)
			}
			return h%2 == 0
		})
	}},
	{"InlineThenCompact", func(_ *ctx, m *ir.Module, _ int64) (*ir.Module, error) {
		if err := ir.InlineUserFunctions(m, func(*ir.Function) bool { return true }); err != nil {
			return m, err
		}
		ir.CompactUnused(m)
		return m, nil
	}},
	{"DxilPrepare", func(_ *ctx, m *ir.Module, _ int64) (*ir.Module, error) { return dxil.VerifPrepare(m, 0) }},
	{"DxilSroa", func(_ *ctx, m *ir.Module, _ int64) (*ir.Module, error) { return dxil.VerifPreparePasses(m, true, false, false) }},
	{"DxilMem2reg", func(_ *ctx, m *ir.Module, _ int64) (*ir.Module, error) { return dxil.VerifPreparePasses(m, false, true, false) }},
	{"DxilDce", func(_ *ctx, m *ir.Module, _ int64) (*ir.Module, error) { return dxil.VerifPreparePasses(m, false, false, true) }},
	{"DxilSroaMem2reg", func(_ *ctx, m *ir.Module, _ int64) (*ir.Module, error) { return dxil.VerifPreparePasses(m, true, true, false) }},
	{"DxilPrepareOpt", func(_ *ctx, m *ir.Module, _ int64) (*ir.Module, error) { return dxil.VerifPrepare(m, 1) }},
}

func validateErr(m *ir.Module) string {
	r := guard("validate", func() error {
		errs, err := naga.Validate(m)
		if err != nil {
			return err
		}
		if len(errs) > 0 {
			return fmt.Errorf("%s", errs[0].Error())
		}
		return nil
	})
	return r.err
}

// c13Apply: fresh module from src, pass applied once and twice.  Returns before/after dumps and a
// status string: "ok" | "pass-error: …" | "invalid: …" | "not-idempotent".
func c13Apply(c *ctx, src string, p irPass, salt int64) (before, after, status string) {
	m, _ := frontEnd(src)
	if m == nil {
		return "", "", "frontend"
	}
	before = dumpModule(m)
	var out *ir.Module
	r := guard(p.name, func() error {
		o, err := p.run(c, m, salt)
		out = o
		return err
	})
	if r.err != "" {
		return before, "", "pass-error: " + r.err
	}
	after = dumpModule(out)
	if e := validateErr(out); e != "" {
		return before, after, "invalid: " + e
	}
	var out2 *ir.Module
	r = guard(p.name, func() error {
		o, err := p.run(c, out, salt)
		out2 = o
		return err
	})
	if r.err != "" {
		return before, after, "second-run-error: " + r.err
	}
	if dumpModule(out2) != after {
		return before, after, "not-idempotent"
	}
	return before, after, "ok"
}

var c13drv *drvProc

func cmdC13(c *ctx) {
	// witness files given as arguments: every pass on each, fixed inputs
	for _, f := range c.args {
		b, err := os.ReadFile(f)
		if err != nil {
			continue
		}
		src := string(b)
		inp, outp := make([]uint32, 16), make([]uint32, 16)
		for i := range inp {
			inp[i] = uint32(i)
		}
		for _, p := range irPasses {
			before, after, status := c13Apply(c, src, p, 1)
			c.line("tags.txt", p.name+" witness:"+filepath.Base(f)+" witness")
			c.line("src.txt", q(src))
			c.line("impl.txt", status)
			if after == "" {
				c.line("cases.txt", "(c13skip)")
			} else {
				c.line("cases.txt", fmt.Sprintf("(c13 (before %s) (after %s) (inputs %s %s))", before, after, wordsSexp(0, inp), wordsSexp(1, outp)))
			}
		}
	}
	if len(c.args) > 0 {
		return
	}
	// generated modules: semantic + structural
	for i := 0; i < c.n; i++ {
		o := defaultGenOpts(c)
		setKnob(&o, "clean")
		if o.helpers == 0 && c.chance(0.7) {
			o.helpers = 1 + c.rng.Intn(3)
		}
		// knob: `return` nested in a loop/switch of a helper (known finding: inliner) in 1 program of 4
		knob := "flatRet"
		o.flatRet = true
		o.callInSwitch = true
		if i%4 == 3 {
			knob, o.flatRet = "nestedRet", false
		}
		m, feat := genModule(c, o)
		// the tag is decided on the program, not on the option that was asked for
		if hasNestedReturn(m) {
			knob = "nestedRet"
		} else {
			knob = "flatRet"
		}
		src := m.wgsl()
		if mod, _ := frontEnd(src); mod == nil {
			c.count("frontend-rejected")
			continue
		}
		inp, outp := c.inputWords(16), c.inputWords(16)
		salt := c.rng.Int63()
		for _, p := range irPasses {
			before, after, status := c13Apply(c, src, p, salt)
			c.line("tags.txt", p.name+" gen "+knob)
			c.line("src.txt", q(src))
			c.line("impl.txt", status)
			mk := func(before, after string) string {
				return fmt.Sprintf("(c13 (before %s) (after %s) (inputs %s %s))", before, after, wordsSexp(0, inp), wordsSexp(1, outp))
			}
			if after == "" {
				c.line("cases.txt", "(c13skip)")
			} else {
				line := mk(before, after)
				c.line("cases.txt", line)
				// minimise semantic disagreements on the spot (once per pass and knob)
				key := "shrunk:" + p.name + ":" + knob
				if c.stats[key] == 0 && c.stats["shrunk"] < 40 && (knob == "flatRet" || c.stats["shrunk"] < 4) {
					if c13drv == nil {
						c13drv = startDrv("c13")
					}
					if c13drv != nil && strings.Contains(c13drv.ask(line), "DISAGREE") {
						m2 := m // shrink a copy of the AST in place (the module is not used afterwards)
						shrinkModule(m2, func(s string) bool {
							b, a, _ := c13Apply(c, s, p, salt)
							return a != "" && strings.Contains(c13drv.ask(mk(b, a)), "DISAGREE")
						})
						b, a, _ := c13Apply(c, m2.wgsl(), p, salt)
						c.line("shrunk.txt", q(p.name+" "+knob+" | "+c13drv.ask(mk(b, a)))+" "+q(m2.wgsl()))
						c.count("shrunk")
						c.count(key)
					}
				}
			}
			c.count("pass:" + p.name)
		}
		for k, v := range feat {
			c.stats["feat:"+k] += v
		}
		c.count("programs")
	}
	// corpus: structural part only
	files, _ := filepath.Glob(filepath.Join(repoDir(), "snapshot", "testdata", "in", "*.wgsl"))
	sort.Strings(files)
	ncorpus := 30
	if c.tier == "thorough" {
		ncorpus = len(files)
	}
	for i := 0; i < ncorpus && len(files) > 0; i++ {
		f := files[(int(c.seed)*7+i*5)%len(files)]
		if c.tier == "thorough" {
			f = files[i]
		}
		b, err := os.ReadFile(f)
		if err != nil {
			continue
		}
		src := string(b)
		if mod, _ := frontEnd(src); mod == nil {
			c.count("corpus-frontend-error")
			continue
		}
		for _, p := range irPasses {
			_, _, status := c13Apply(c, src, p, int64(i))
			c.line("tags.txt", p.name+" corpus:"+filepath.Base(f))
			c.line("src.txt", q(src))
			c.line("impl.txt", status)
			c.line("cases.txt", "(c13skip)")
			c.count("corpus-pass:" + p.name)
		}
	}
}

func init() { commands["c13"] = cmdC13 }

// c13diff: debugging aid — print dumps after one and two applications of a pass on a WGSL file.
func cmdC13Diff(c *ctx) {
	name, file := c.args[0], c.args[1]
	b, _ := os.ReadFile(file)
	for _, p := range irPasses {
		if p.name != name {
			continue
		}
		m, _ := frontEnd(string(b))
		o1, _ := p.run(c, m, 1)
		d1 := dumpModule(o1)
		o2, _ := p.run(c, o1, 1)
		d2 := dumpModule(o2)
		fmt.Println(d1)
		fmt.Println(d2)
	}
}

func init() { commands["c13diff"] = cmdC13Diff }
