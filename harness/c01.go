package main

// C01 family — semantic cases: generated program (AST + source), naga's lowered IR (Core dump),
// emitted SPIR-V words, and concrete buffer contents.

import (
	"fmt"
	"sort"
	"strings"

	"github.com/gogpu/naga"
	"github.com/gogpu/naga/spirv"
)

func (c *ctx) inputWords(n int) []uint32 {
	ws := make([]uint32, n)
	for i := range ws {
		switch c.rng.Intn(4) {
		case 0:
			ws[i] = boundaryI[c.rng.Intn(len(boundaryI))]
		case 1:
			ws[i] = uint32(c.rng.Intn(40))
		default:
			ws[i] = c.rng.Uint32()
		}
	}
	return ws
}

func wordsSexp(b int, ws []uint32) string {
	parts := make([]string, len(ws))
	for i, w := range ws {
		parts[i] = fmt.Sprint(w)
	}
	return fmt.Sprintf("(%d %s)", b, strings.Join(parts, " "))
}

func semCase(m *wmodule, inp, outp []uint32) (string, bool) {
	src := m.wgsl()
	mod, _ := frontEnd(src)
	if mod == nil {
		return "", false
	}
	return fmt.Sprintf("(sem (ast %s) (ir %s) (inputs %s %s))", m.sexp(), dumpModule(mod), wordsSexp(0, inp), wordsSexp(1, outp)), true
}

func spvWords(b []byte) string {
	var sb strings.Builder
	for i := 0; i+3 < len(b); i += 4 {
		if i > 0 {
			sb.WriteByte(' ')
		}
		fmt.Fprint(&sb, uint32(b[i])|uint32(b[i+1])<<8|uint32(b[i+2])<<16|uint32(b[i+3])<<24)
	}
	return sb.String()
}

// spvCase: the WGSL AST, the real SPIR-V words (under the given option set) and concrete buffers.
func spvCase(m *wmodule, inp, outp []uint32, opts spirv.Options) (string, bool) {
	mod, _ := frontEnd(m.wgsl())
	if mod == nil {
		return "", false
	}
	var bin []byte
	r := guard("spirv", func() error {
		b, err := naga.GenerateSPIRV(mod, opts)
		bin = b
		return err
	})
	if r.err != "" {
		return "", false
	}
	return fmt.Sprintf("(spvsem (ast %s) (spv %s) (inputs %s %s))", m.sexp(), spvWords(bin), wordsSexp(0, inp), wordsSexp(1, outp)), true
}

var spvVersions = []spirv.Version{spirv.Version1_0, spirv.Version1_1, spirv.Version1_2, spirv.Version1_3, spirv.Version1_4, spirv.Version1_5, spirv.Version1_6}

// riskyKnobs: generator features that hit a recorded defect of the SPIR-V path; each is enabled alone
// in a share of the programs so that the finding keeps being reproduced and everything else stays clean.
var riskyKnobs = []string{"rawShift", "clz", "privInit", "swBreak", "absU", "vecInit", "fround", "f2iRange", "bitField", "frem"}

func setKnob(o *wgenOpts, k string) {
	o.negInit, o.vecInit, o.rawShift, o.clz, o.privInit, o.swBreak, o.absU, o.shadowUse = false, false, false, false, false, false, false, false
	o.scalarSel, o.contLet = true, true
	o.fround = true // SPIR-V: GLSL.std.450 RoundEven since fix 487639f
	o.f2iRange = false
	o.bitField = false
	o.frem = false
	switch k {
	case "frem":
		o.frem, o.floats = true, true
	case "bitField":
		o.bitField = true
	case "f2iRange":
		o.f2iRange = true
	case "fround":
		o.froundBoost, o.floats = true, true
	case "rawShift":
		o.rawShift = true
	case "clz":
		o.clz = true
	case "privInit":
		o.privInit = true
	case "swBreak":
		o.swBreak = true
	case "absU":
		o.absU = true
	case "vecInit":
		o.privInit, o.vecInit = true, true
	}
}

func cmdSpvSem(c *ctx) {
	var d *drvProc
	for i := 0; i < c.n; i++ {
		o := defaultGenOpts(c)
		knob := "clean"
		if i%5 == 4 {
			knob = riskyKnobs[(i/5)%len(riskyKnobs)]
		}
		setKnob(&o, knob)
		m, feat := genModule(c, o)
		inp, outp := c.inputWords(16), c.inputWords(16)
		opts := spirv.Options{Version: spvVersions[c.rng.Intn(len(spvVersions))], Debug: c.chance(0.3), ForceLoopBounding: c.chance(0.3)}
		line, ok := spvCase(m, inp, outp, opts)
		if !ok {
			c.count("rejected")
			c.line("rejected.txt", q(m.wgsl()))
			continue
		}
		c.line("cases.txt", line)
		c.line("src.txt", q(m.wgsl()))
		shape := ""
		if hasMultiSpill(m) {
			shape = " spill2"
		}
		if hasLetSnapshot(m) {
			shape += " letsnap"
		}
		c.line("tags.txt", fmt.Sprintf("%s v%d.%d debug=%v loopbound=%v%s", knob, opts.Version.Major, opts.Version.Minor, opts.Debug, opts.ForceLoopBounding, shape))
		if c.stats["shrunk"] < 8 {
			if d == nil {
				d = startDrv("sem")
			}
			if d != nil {
				if r := d.ask(line); strings.HasPrefix(r, "DISAGREE") {
					cls := errClassOf(r)
					if c.stats["shrunk:"+knob+":"+cls] == 0 {
						shrinkModule(m, func(string) bool {
							l, ok := spvCase(m, inp, outp, opts)
							return ok && errClassOf(d.ask(l)) == cls
						})
						l, _ := spvCase(m, inp, outp, opts)
						c.line("shrunk.txt", q(knob+" "+cls+" | "+d.ask(l))+" "+q(m.wgsl()))
						c.count("shrunk")
						c.count("shrunk:" + knob + ":" + cls)
					}
				}
			}
		}
		for k, v := range feat {
			c.stats["feat:"+k] += v
		}
		c.count("programs:" + knob)
	}
}

// errClassOf: coarse class of a DISAGREE line (error text without numbers, or "values").
func errClassOf(r string) string {
	if !strings.HasPrefix(r, "DISAGREE") {
		return "ok"
	}
	if i := strings.Index(r, "-error["); i >= 0 {
		b := []byte(r[i:])
		for j, ch := range b {
			if ch >= '0' && ch <= '9' {
				b[j] = 'N'
			}
		}
		return string(b)
	}
	return "values"
}

func cmdSem(c *ctx) {
	var d *drvProc
	for i := 0; i < c.n; i++ {
		o := defaultGenOpts(c)
		setKnob(&o, "clean")
		m, feat := genModule(c, o)
		src := m.wgsl()
		mod, res := frontEnd(src)
		if mod == nil {
			c.count("frontend-rejected")
			_ = res
			continue
		}
		inp := c.inputWords(16)
		outp := c.inputWords(16)
		c.line("cases.txt", fmt.Sprintf("(sem (ast %s) (ir %s) (inputs %s %s))", m.sexp(), dumpModule(mod), wordsSexp(0, inp), wordsSexp(1, outp)))
		c.line("src.txt", q(src))
		// minimise disagreements on the spot (a few per run)
		if c.stats["shrunk"] < 6 {
			if d == nil {
				d = startDrv("sem")
			}
			if d != nil {
				line, _ := semCase(m, inp, outp)
				if r := d.ask(line); strings.HasPrefix(r, "DISAGREE") {
					shrinkModule(m, func(string) bool {
						l, ok := semCase(m, inp, outp)
						return ok && strings.HasPrefix(d.ask(l), "DISAGREE")
					})
					l, _ := semCase(m, inp, outp)
					c.line("shrunk.txt", q(d.ask(l))+" "+q(m.wgsl()))
					c.count("shrunk")
				}
			}
		}
		ks := make([]string, 0, len(feat))
		for k := range feat {
			ks = append(ks, k)
		}
		sort.Strings(ks)
		for _, k := range ks {
			c.stats["feat:"+k] += feat[k]
		}
		c.count("programs")
	}
}

func init() { commands["sem"] = cmdSem; commands["spvsem"] = cmdSpvSem }
