const positions = array(vec4(0., 1., 0., 1.), vec4(-1., -1., 0., 1.), vec4(1., -1., 0., 1.));
@group(0) @binding(0) var<storage, read_write> outp: array<vec4<f32>>;
@compute @workgroup_size(1)
fn main() {
    outp[0] = positions[1];
}
