@group(0) @binding(0) var<storage, read_write> out: array<i32>;
override b: u32 = 6u;
var<workgroup> arr: array<i32, b>;
@compute @workgroup_size(1) fn main() { arr[5] = 9; out[0] = arr[5]; }
