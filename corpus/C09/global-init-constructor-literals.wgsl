@group(0) @binding(1) var<storage, read_write> outp: array<u32>;
var<private> gm: mat2x2<f32> = mat2x2<f32>(vec2<f32>(1.0, 2.0), vec2<f32>(3.0, 4.0));
var<private> gv: vec4<i32> = vec4<i32>(vec2<i32>(-1, 2), -3i, 4);
var<private> ga: array<vec2<u32>, 2> = array<vec2<u32>, 2>(vec2<u32>(1, 2), vec2<u32>(7u));
@compute @workgroup_size(1)
fn main() {
  outp[0] = u32(determinant(gm)) + bitcast<u32>(gv.x + gv.z) + ga[1].y;
}
