// texture queries / loads whose operands are renumbered by expression compaction (a folded swizzle of a constant vector
// leaves a dead constructor behind, so every later handle of the function moves)
@group(0) @binding(0) var tex: texture_2d<f32>;
@group(0) @binding(1) var texa: texture_2d_array<f32>;
@group(0) @binding(2) var<storage, read_write> out: array<vec2<u32>, 4>;

fn mip_size(base: u32) -> vec2<u32> {
    let bias = vec3<i32>(1, 2, 3).y;
    let lvl = i32(base) + bias;
    return textureDimensions(tex, lvl);
}

fn texel(base: u32, p: vec2<i32>) -> vec4<f32> {
    let k = vec2<i32>(4, 5).x;
    let lvl = i32(base) + k;
    let layer = vec4<i32>(0, 1, 2, 3).z + i32(base);
    return textureLoad(tex, p, lvl) + textureLoad(texa, p, layer, lvl);
}

@compute @workgroup_size(1)
fn main() {
    out[0] = mip_size(0u);
    let t = texel(1u, vec2<i32>(0, 0));
    out[1] = vec2<u32>(u32(t.x), textureNumLevels(tex));
    out[2] = vec2<u32>(textureNumLayers(texa), 0u);
}
