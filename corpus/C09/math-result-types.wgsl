// C09 regression input: result types of length / distance / determinant / transpose on f16 vectors and non-square matrices
// (recorded as f32 / the argument type until fix 480fc1c).
enable f16;
@group(0) @binding(1) var<storage, read_write> outp: array<f32>;
@compute @workgroup_size(1)
fn main() {
  let m = mat2x2<f32>(1.0, 2.0, 3.0, 4.0);
  let mh = mat2x3<f16>(1h, 2h, 3h, 4h, 5h, 6h);
  let d = determinant(m);
  let t = transpose(mh);
  let vh = vec3<f16>(1h, 2h, 3h);
  let l = length(vh);
  let dd = dot(vh, vh);
  let n = normalize(vh);
  let di = distance(vh, vh);
  let inv = inverseSqrt(l);
  outp[0] = d + f32(t[0][0]) + f32(l) + f32(dd) + f32(n.x) + f32(di) + f32(inv);
}

// matrix conversions (As on a matrix changes the scalar width)
struct MU { m: mat2x3<f16>, }
@group(0) @binding(2) var<uniform> mu: MU;
@group(0) @binding(3) var<storage, read_write> mo: MU;
fn matconv() {
  let wide = mat2x3<f32>(mu.m);
  mo.m = mat2x3<f16>(wide);
}
