// C09 / C05 witness: the abstract-float operand of matrix * scalar is never converted to the matrix's f32:
// an abstract literal survives lowering (GLSL prints it as the double literal `2.0LF`).
@group(0) @binding(0) var<storage, read_write> outp: array<f32>;
@compute @workgroup_size(1)
fn main() {
    let m2 = mat2x2<f32>(1.0, 0.0, 0.0, 1.0);
    let scaled = m2 * 2.0;
    let scaled2 = 3.0 * m2;
    outp[0] = scaled[0][0] + scaled2[1][1];
}
