@group(0) @binding(1) var<storage, read_write> outp: array<u32>;
const KK1: i32 = 6i;
@compute @workgroup_size(1)
fn main() {
  outp[2u] *= select(0u, 1u, (!(KK1 >= 2147483647i)));
}
