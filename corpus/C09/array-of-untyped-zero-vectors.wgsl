// array(...) over constructors without template arguments: vec2() is vec2<AbstractInt>; with vec2(1, 2) the element type is
// vec2<i32> and every component of the Compose must have it
const A = array(vec2(), vec2(1, 2));
@group(0) @binding(0) var<storage, read_write> out: array<vec3<f32>, 4>;

@compute @workgroup_size(1)
fn main(@builtin(local_invocation_index) i: u32) {
    let q = A[i];
    out[2] = vec3<f32>(vec2<f32>(q), 1.0);
    let r = array(vec3(), vec3(1.5, 2.0, 3.0));
    out[1] = r[i];
}
