@group(0) @binding(1) var<storage, read_write> outp: array<u32>;
var<private> gp1: vec2<i32> = vec2<i32>(5i, 4i);
@compute @workgroup_size(1)
fn main() {
  outp[0] = bitcast<u32>(gp1.x);
}
