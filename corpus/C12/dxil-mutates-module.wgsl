@group(0) @binding(0) var<storage, read> inp: array<u32>;
@group(0) @binding(1) var<storage, read_write> outp: array<u32>;
fn helper0() -> i32 {
  outp[0u] ^= dot(bitcast<vec3<u32>>((vec3<i32>(bitcast<i32>(inp[7u]), bitcast<i32>(inp[11u]), bitcast<i32>(inp[0u])) | ((vec3<i32>(bitcast<i32>(inp[12u]), bitcast<i32>(inp[6u]), bitcast<i32>(inp[10u])) << (vec3<u32>(inp[5u], inp[10u], inp[13u]) & vec3<u32>(31u))) | vec3<i32>(5i, 7i, 3i)))), vec3<u32>(3u, 5u, 7u));
  outp[1u] = dot(vec2<u32>(0u, 0u), vec2<u32>(3u, 5u));
  {
    var ii1: u32 = 0u;
    while (ii1 < 3u) {
      ii1++;
    }
  }
  return bitcast<i32>(inp[14u]);
}
@compute @workgroup_size(1)
fn main() {
  switch bitcast<i32>((inp[4u] % 5u)) {
    default: {
      var vv2: i32 = ((abs(bitcast<i32>(inp[8u])) ^ KK0) << 21u);
    }
    case 6i: {
      {
        var ii3: u32 = 0u;
        loop {
          if bool(inp[3u]) {
            break;
          }
          var vv4: i32 = 255i;
          const kk5: i32 = 0i;
          continuing {
            outp[2u] = dot((inp[4u] - vec3<u32>(1u, 1u, 1u)), vec3<u32>(3u, 5u, 7u));
            ii3++;
            break if (ii3 >= 3u);
          }
        }
      }
    }
  }
  outp[3u] ^= bitcast<u32>(i32((~firstTrailingBit(inp[15u]))));
  outp[4u] = bitcast<u32>((~vec4<i32>(KK0)[1u]));
}
const KK0: i32 = 8i;
const KK1: u32 = 8u;
var<private> gp0: vec3<u32>;
var<private> gp1: bool;
