// const_assert: the expression may start with a parenthesis without being wholly parenthesised
const X = 3;
const_assert X > 2;
const_assert (X + 1) > 2;
const_assert(X > 2);
const_assert (X > 2) && (X < 9);
@compute @workgroup_size(1)
fn main() {
  const_assert (X * 2) == 6;
}
