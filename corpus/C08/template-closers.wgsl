// `>` that closes a template list may be followed directly by `=`, `>` or `,`
var<private> p: vec2<f32>= vec2<f32>(1.0, 2.0);
var<private> q: array<vec2<u32>,2>= array<vec2<u32>,2>(vec2<u32>(1u), vec2<u32>(2u));
fn g(r: ptr<function, vec2<bool,>>, w: ptr<function, array<vec2<u32>, 2>>) { }
@compute @workgroup_size(1)
fn main() {
  var m: mat2x2<f32>= mat2x2<f32>(1.0, 0.0, 0.0, 1.0);
  let c = vec2<bool>(p.x<p.y, q[0].x>=q[1].x);
  let d = select(1u, 2u, p.x>p.y);
}
