// module constants without a type annotation: abstract-float and abstract-int arithmetic
const H = 0.5;
const A = H * 2.0;
const B = 1.0 / 2.0;
const C = 3 * 4 + 1;
const D = -H;
const E = A + B;
@group(0) @binding(0) var<storage, read_write> outp: array<f32>;
@compute @workgroup_size(1)
fn main() {
  outp[0] = A + B + f32(C) + D + E;
}
