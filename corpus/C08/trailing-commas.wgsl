// every comma-separated list of the grammar may end in a comma
struct S { a: u32, b: vec2<f32,>, }
fn f(a: u32, b: u32,) -> u32 { return min(a, b,); }
@group(0,) @binding(0,) var<storage, read_write> outp: array<u32,>;
@compute @workgroup_size(1, 1,)
fn main() {
  let s = S(1u, vec2<f32>(1.0, 2.0,),);
  let v = array<u32, 2,>(1u, 2u,);
  outp[0] = f(s.a, v[1],);
}
