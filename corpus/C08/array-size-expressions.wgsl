// the element-count argument of array<E, N> is any const-expression
const A = 7;
const B: u32 = 2u;
var<private> a0: array<i32, A & 3>;
var<private> a1: array<i32, (A & 3)>;
var<private> a2: array<i32, A + 1>;
var<private> a3: array<i32, A * 2 - 1>;
var<private> a4: array<i32, B << 1u>;
var<private> a5: array<i32, A / 2 | 1>;
var<private> a6: array<i32, A ^ 5>;
var<private> a7: array<i32, A % 4>;
@compute @workgroup_size(1)
fn main() {
  a0[0] = 1; a1[0] = 1; a2[0] = 1; a3[0] = 1; a4[0] = 1; a5[0] = 1; a6[0] = 1; a7[0] = 1;
}
