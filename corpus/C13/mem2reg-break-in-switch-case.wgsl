@group(0) @binding(0) var<storage, read> inp: array<u32>;
@group(0) @binding(1) var<storage, read_write> outp: array<u32>;
@compute @workgroup_size(1)
fn main() {
    var x = 1u;
    switch inp[1] {
        case 1u: { x = 10u; if inp[3] == 3u { break; } x = 20u; }
        default: { x = 5u; }
    }
    outp[2] = x;
}
