@group(0) @binding(0) var<storage, read> inp: array<u32>;
@group(0) @binding(1) var<storage, read_write> outp: array<u32>;
@compute @workgroup_size(1)
fn main() {
    var i = 0u;
    loop {
        let v = i;
        i = v + 1u;
        if v > 3u { break; }
        outp[v + 2u] = v + inp[0];
    }
}
