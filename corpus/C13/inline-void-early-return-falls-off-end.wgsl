@group(0) @binding(0) var<storage, read> inp: array<u32>;
@group(0) @binding(1) var<storage, read_write> outp: array<u32>;
fn helper(p: ptr<function, bool>) {
  if (!(*p)) {
    return;
  }
  switch (inp[5u] % 5u) {
    default: {
      outp[3u] = 4u;
    }
    case 6u: {
      outp[3u] = 7u;
    }
  }
}
@compute @workgroup_size(1)
fn main() {
  var v: array<bool, 3> = array<bool, 3>(true, true, true);
  helper(&v[inp[2u] % 3u]);
  outp[1u] = 5u;
}
