@group(0) @binding(0) var<storage, read> inp: array<u32>;
@group(0) @binding(1) var<storage, read_write> outp: array<u32>;
fn pick(x: u32) -> u32 {
  switch x {
    case 1u: {
      if (inp[1u] == 1u) {
        return 10u;
      }
    }
    default: {
    }
  }
  return 20u;
}
fn scan(n: u32) -> u32 {
  var i: u32 = 0u;
  loop {
    if (i >= n) {
      break;
    }
    if (inp[i] == 2u) {
      return i + 100u;
    }
    i = i + 1u;
  }
  return 7u;
}
@compute @workgroup_size(1)
fn main() {
  outp[0u] = pick(inp[1u]);
  outp[1u] = scan(5u);
}
