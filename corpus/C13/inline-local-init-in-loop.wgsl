@group(0) @binding(0) var<storage, read> inp: array<u32>;
@group(0) @binding(1) var<storage, read_write> outp: array<u32>;
fn helper0(pp0_0: bool, pp0_1: ptr<function, u32>, pp0_2: vec3<bool>) {
  var ii1: u32 = 0u;
  while (ii1 < 3u) {
    ii1++;
    (*pp0_1) -= (*pp0_1);
  }
}
@compute @workgroup_size(1)
fn main() {
  var ii7: u32 = 0u;
  loop {
    if (ii7 >= 2u) {
      break;
    }
    var vv8: array<u32, 4> = array<u32, 4>(0u, 0u, ii7, 32u);
    helper0(false, (&vv8[(inp[1u] % 4u)]), vec3<bool>(false));
    outp[10u] ^= vv8[3u];
    continuing {
      ii7++;
    }
  }
}
