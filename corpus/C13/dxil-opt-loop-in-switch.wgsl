@group(0) @binding(0) var<storage, read> inp: array<u32>;
@group(0) @binding(1) var<storage, read_write> outp: array<u32>;
@compute @workgroup_size(1)
fn main() {
  var vv2: i32 = bitcast<i32>(inp[9u]);
  switch 0i {
    case 2i: {
    }
    default: {
      for (var ii4: u32 = 0u; false; ii4 += 1u) {
        vv2++;
      }
    }
    case 7i: {
    }
  }
  outp[2u] = bitcast<u32>(vv2);
}
