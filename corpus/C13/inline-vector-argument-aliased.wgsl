@group(0) @binding(0) var<storage, read> inp: array<u32>;
@group(0) @binding(1) var<storage, read_write> outp: array<u32>;
var<private> g: vec2<u32>;
fn f(v: vec2<u32>) -> u32 { g = vec2<u32>(100u, 200u); return v.x; }
@compute @workgroup_size(1)
fn main() {
    g = vec2<u32>(inp[1], inp[2]);
    outp[2] = f(g);
}
