@group(0) @binding(0) var<storage, read> inp: array<u32>;
@group(0) @binding(1) var<storage, read_write> outp: array<u32>;
@compute @workgroup_size(1)
fn main() {
    let a = inp[0];
    var x = a + 5u;
    switch inp[1] {
        case 1u: {
            loop {
                if x >= 20u { break; }
                x = x + 3u;
            }
        }
        default: {
        }
    }
    outp[2] = x;
}
