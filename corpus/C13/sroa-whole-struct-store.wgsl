@group(0) @binding(0) var<storage, read> inp: array<u32>;
@group(0) @binding(1) var<storage, read_write> outp: array<u32>;
struct S { a: u32, b: u32 }
@compute @workgroup_size(1)
fn main() {
    var s: S;
    s = S(inp[1], 7u);
    outp[2] = s.a + s.b;
}
