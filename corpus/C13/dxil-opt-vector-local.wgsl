@group(0) @binding(0) var<storage, read> inp: array<u32>;
@group(0) @binding(1) var<storage, read_write> outp: array<u32>;
@compute @workgroup_size(1)
fn main() {
  var vv9: vec4<i32> = vec4<i32>(bitcast<i32>(12u), 0i, 0i, bitcast<i32>(inp[11u]));
  var vv11: array<i32, 3> = array<i32, 3>(vv9[0u], 2i, 0i);
  outp[7u] ^= bitcast<u32>(vv11[0u]);
}
