@group(0) @binding(0) var<storage, read> inp: array<u32>;
@group(0) @binding(1) var<storage, read_write> outp: array<u32>;
fn helper0() {
  for (var ii1: u32 = 0u; (ii1 < 1u); ii1 += 1u) {
    outp[0u] += bitcast<u32>(bitcast<i32>(13u));
  }
}
@compute @workgroup_size(1)
fn main() {
  for (var ii6: u32 = 0u; (ii6 < 3u); ii6 += 1u) {
    helper0();
  }
}
