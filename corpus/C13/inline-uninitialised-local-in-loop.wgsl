@group(0) @binding(0) var<storage, read> inp: array<u32>;
@group(0) @binding(1) var<storage, read_write> outp: array<u32>;
fn bump(n: u32) -> u32 {
    var s: u32;
    if n > 1u {
        s = s + n;
    }
    outp[3] = outp[3] + 1u;
    return s;
}
@compute @workgroup_size(1)
fn main() {
    var total = 0u;
    for (var i = 0u; i < 3u; i = i + 1u) {
        total = total + bump(inp[5]);
    }
    outp[2] = total;
}
