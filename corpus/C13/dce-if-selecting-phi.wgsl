@group(0) @binding(0) var<storage, read> inp: array<u32>;
@group(0) @binding(1) var<storage, read_write> outp: array<u32>;
@compute @workgroup_size(1)
fn main() {
    var x = inp[0] + 100u;
    if inp[1] == 7u { x = x + 10u; } else { if inp[3] == 3u { x = 3u; } }
    outp[2] = x;
}
