@group(0) @binding(0) var<storage, read> inp: array<u32>;
@group(0) @binding(1) var<storage, read_write> outp: array<u32>;
fn bump(p: ptr<function, u32>) {
  if ((*p) > 100u) {
    return;
  }
  (*p) += 1u;
}
@compute @workgroup_size(1)
fn main() {
  var v: u32 = inp[0u];
  bump(&v);
  outp[0u] = v;
}
