var<private> pa: array<i32, 4>;
var<workgroup> wa: array<i32, 4>;
@group(0) @binding(0) var<storage, read_write> sa: array<i32, 4>;
fn fp(p: ptr<private, array<i32, 4>>, i: u32) -> i32 { return (*p)[i]; }
fn fw(p: ptr<workgroup, array<i32, 4>>, i: u32) -> i32 { (*p)[i] = 1; return (*p)[1]; }
fn fs(p: ptr<storage, array<i32, 4>, read_write>, i: u32) -> i32 { return (*p)[i]; }
@compute @workgroup_size(1)
fn main(@builtin(local_invocation_index) li: u32) {
  sa[0] = fp(&pa, li) + fw(&wa, li) + fs(&sa, li);
}
