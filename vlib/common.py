"""Shared machinery for ./check: build, regenerate, re-prove, audit, correspond, verdict, evidence."""
import fcntl
import hashlib
import json
import os
import re
import shutil
import subprocess
import sys
import time

VERIF = os.path.dirname(os.path.dirname(os.path.abspath(__file__)))
REPO = os.environ.get("VERIF_REPO", "/repo")
LEAN = os.path.join(VERIF, "lean")
HARNESS = os.path.join(VERIF, "harness")
WORK = os.path.join(VERIF, ".work")
ALLOWED_AXIOMS = {"propext", "Classical.choice", "Quot.sound"}
FORBIDDEN = re.compile(r"\bsorry\b|\badmit\b|^\s*axiom\s|native_decide|implemented_by|\bunsafe\s|maxHeartbeats\s+0|bv_decide")


def env():
    e = dict(os.environ)
    e["GOFLAGS"] = "-mod=mod"
    e["GOPROXY"] = "off"
    e.pop("GOSUMDB", None)  # GOSUMDB=off breaks the offline toolchain switch
    e["GONOSUMDB"] = "*"
    e["GONOSUMCHECK"] = "1"
    e["GOFLAGS"] = "-mod=mod"
    e["VERIF_REPO"] = REPO
    return e


def run(cmd, cwd=None, stdin=None, timeout=None, check=False, input_bytes=None):
    p = subprocess.run(cmd, cwd=cwd, env=env(), stdin=stdin, input=input_bytes,
                       stdout=subprocess.PIPE, stderr=subprocess.STDOUT, timeout=timeout)
    out = p.stdout.decode("utf-8", "replace")
    if check and p.returncode != 0:
        raise RuntimeError("command failed: %s\n%s" % (cmd, out))
    return p.returncode, out


class Lock:
    """Serialises lake / go builds between concurrently running checks."""

    def __init__(self, name):
        os.makedirs(WORK, exist_ok=True)
        self.path = os.path.join(WORK, name + ".lock")

    def __enter__(self):
        self.f = open(self.path, "w")
        fcntl.flock(self.f, fcntl.LOCK_EX)
        return self

    def __exit__(self, *a):
        fcntl.flock(self.f, fcntl.LOCK_UN)
        self.f.close()


class Check:
    """State of one `./check Cxx` run."""

    def __init__(self, prop, tier, seed):
        self.prop = prop
        self.tier = tier
        self.seed = seed
        self.t0 = time.time()
        self.dir = os.path.join(WORK, prop)
        shutil.rmtree(self.dir, ignore_errors=True)
        os.makedirs(self.dir, exist_ok=True)
        os.makedirs(os.path.join(self.dir, "replay"), exist_ok=True)
        self.violations = []      # (replay_path, found_input)
        self.known_hits = {}      # finding id -> description
        self.theorems = []        # audit rows
        self.obligations = 0
        self.discharged = 0
        self.evaluations = 0
        self.distinct = set()
        self.samples = []
        self.stats = {}
        self.notes = []
        self.trusted = []
        self.rule = ""
        self.checker_cmds = []
        self.extra = {}
        self.known = load_known(prop)

    # ---- building -------------------------------------------------------------------------
    def build_harness(self):
        """go build -tags verif against /repo's working tree."""
        binp = os.path.join(self.dir, "vh")
        with Lock("gobuild"):
            gomod = os.path.join(HARNESS, "go.mod")
            txt = open(gomod).read()
            want = re.sub(r"replace github.com/gogpu/naga => .*", "replace github.com/gogpu/naga => " + REPO, txt)
            if want != txt:
                open(gomod, "w").write(want)
            rc, out = run(["go", "build", "-tags", "verif", "-o", binp, "."], cwd=HARNESS, timeout=900)
        if rc != 0:
            self.tie_broken("harness-build", "the harness no longer compiles against /repo (hook or API changed)", out[-3000:])
            return None
        self.vh = binp
        return binp

    def harness(self, cmd, n, extra_args=(), timeout=3000, subdir=None):
        out = os.path.join(self.dir, subdir or cmd)
        os.makedirs(out, exist_ok=True)
        rc, log = run([self.vh, cmd, "-seed", str(self.seed), "-tier", self.tier, "-n", str(n), "-out", out, *extra_args],
                      cwd=self.dir, timeout=timeout)
        if rc != 0:
            self.tie_broken("harness-run:" + cmd, "harness command crashed (panic in the implementation or the harness)", log[-4000:])
            return None
        st = os.path.join(out, "stats.json")
        if os.path.exists(st):
            try:
                self.stats[cmd if not subdir else subdir] = json.load(open(st))
            except Exception:
                pass
        return out

    def lake_build(self, targets, what="proofs"):
        """Kernel re-check of the given modules (and whatever they import)."""
        with Lock("lake"):
            rc, out = run(["lake", "build", *targets], cwd=LEAN, timeout=3000)
        open(os.path.join(self.dir, "lake-%s.log" % what), "w").write(out)
        self.checker_cmds.append("cd lean && lake build " + " ".join(targets))
        return rc == 0, out

    def driver(self):
        ok, out = self.lake_build(["nagadrv"], "driver")
        if not ok:
            self.tie_broken("driver-build", "Lean driver failed to build", out[-3000:])
            return None
        return os.path.join(LEAN, ".lake", "build", "bin", "nagadrv")

    def run_driver(self, args, infile, outfile, timeout=3000):
        drv = os.path.join(LEAN, ".lake", "build", "bin", "nagadrv")
        with open(infile, "rb") as fi, open(outfile, "wb") as fo:
            p = subprocess.run([drv, *args], stdin=fi, stdout=fo, stderr=subprocess.PIPE, timeout=timeout)
        if p.returncode != 0:
            self.tie_broken("driver-run", "Lean driver failed", p.stderr.decode("utf-8", "replace")[-2000:])
            return False
        return True

    # ---- proofs ---------------------------------------------------------------------------
    def prove(self, modules, gen_files=()):
        """lake build + audit of the property's theorem modules.  Returns True when every
        theorem checked and the axiom/`sorry` audit is clean."""
        ok, out = self.lake_build(modules)
        if not ok:
            # which module failed?
            failed = re.findall(r"error: (Naga/[^:]+:\d+:\d+): (.*)", out)
            self.proof_failed = (modules, failed[:10], out[-4000:])
            return False
        # forbidden constructs in the sources of these modules and everything under Naga/
        bad = []
        for root, _, files in os.walk(os.path.join(LEAN, "Naga")):
            for fn in files:
                if not fn.endswith(".lean"):
                    continue
                p = os.path.join(root, fn)
                in_block = False
                for ln, line in enumerate(open(p, encoding="utf-8"), 1):
                    code = line
                    # strip comments (line comments and simple block comments)
                    if in_block:
                        if "-/" in code:
                            code = code.split("-/", 1)[1]
                            in_block = False
                        else:
                            continue
                    while "/-" in code:
                        pre, rest = code.split("/-", 1)
                        if "-/" in rest:
                            code = pre + rest.split("-/", 1)[1]
                        else:
                            code = pre
                            in_block = True
                            break
                    code = code.split("--", 1)[0]
                    if FORBIDDEN.search(code):
                        bad.append("%s:%d: %s" % (os.path.relpath(p, LEAN), ln, line.strip()))
        if bad:
            self.proof_failed = (modules, bad[:10], "forbidden construct in Lean sources")
            return False
        with Lock("lake"):
            rc, out = run(["lake", "env", "lean", "--run", "Audit.lean", *modules], cwd=LEAN, timeout=1200)
        self.checker_cmds.append("cd lean && lake env lean --run Audit.lean " + " ".join(modules))
        rows = []
        for line in out.splitlines():
            if line.startswith("{"):
                try:
                    rows.append(json.loads(line))
                except Exception:
                    pass
        if rc != 0 or not rows:
            self.proof_failed = (modules, [], "audit failed: " + out[-2000:])
            return False
        badax = [r for r in rows if not set(r["axioms"]) <= ALLOWED_AXIOMS]
        if badax:
            self.proof_failed = (modules, ["%s uses %s" % (r["theorem"], r["axioms"]) for r in badax[:10]], "axiom audit")
            return False
        self.theorems += rows
        self.obligations += len(rows)
        self.discharged += len(rows)
        return True

    def leanchecker(self, modules):
        with Lock("lake"):
            rc, out = run(["lake", "env", "leanchecker", *modules], cwd=LEAN, timeout=3000)
        self.checker_cmds.append("cd lean && lake env leanchecker " + " ".join(modules))
        self.extra["leanchecker"] = "ok" if rc == 0 else out[-500:]
        return rc == 0

    # ---- verdicts -------------------------------------------------------------------------
    def write_replay(self, obj):
        n = len(self.violations) + 1
        p = os.path.join(self.dir, "replay", "%s-%d.json" % (self.prop, n))
        json.dump(obj, open(p, "w"), indent=1, ensure_ascii=False)
        return p

    def violation(self, obj, found_input=True):
        """Record a violation.  obj must carry a 'key' identifying the input shape so that
        listed known findings can be recognised."""
        kid = match_known(self.known, obj)
        if kid is not None:
            self.known_hits[kid] = self.known_hits.get(kid, 0) + 1
            return
        if len(self.violations) >= 5:
            self.violations.append((None, found_input))
            return
        p = self.write_replay(obj)
        self.violations.append((p, found_input))

    def tie_broken(self, what, why, detail):
        self.violation({"kind": "tie-broken", "what": what, "why": why, "detail": detail}, found_input=False)

    def case(self, key, nontrivial=True):
        self.evaluations += 1
        if nontrivial:
            self.distinct.add(hashlib.sha1(key.encode("utf-8", "replace")).hexdigest())

    # ---- finish ---------------------------------------------------------------------------
    def finish(self, level, explanation, assumptions):
        wall = time.time() - self.t0
        nviol = len(self.violations)
        cov = {
            "obligations": self.obligations,
            "discharged": self.discharged,
            "checker_cmd": " && ".join(dict.fromkeys(self.checker_cmds)) or "none",
            "trusted_base": self.trusted,
            "evaluations": self.evaluations,
            "distinct_nontrivial": len(self.distinct),
            "rule": self.rule,
            "samples": self.samples[:8],
            "explanation": explanation,
            "theorems": sorted(set(r["theorem"] for r in self.theorems)),
            "axioms_used": sorted(set(a for r in self.theorems for a in r["axioms"])),
            "input_distribution": self.stats,
            "known_findings_hit": self.known_hits,
            "notes": self.notes,
        }
        cov.update(self.extra)
        ev = {
            "property_id": self.prop,
            "tier": self.tier,
            "seed": self.seed,
            "level": level,
            "coverage": cov,
            "assumptions": assumptions,
            "wall_s": round(wall, 2),
            "violations": nviol,
        }
        os.makedirs(os.path.join(VERIF, "evidence"), exist_ok=True)
        json.dump(ev, open(os.path.join(VERIF, "evidence", self.prop + ".json"), "w"), indent=1, ensure_ascii=False)
        for kid, cnt in sorted(self.known_hits.items()):
            k = [f for f in self.known if f["id"] == kid][0]
            print("KNOWN-FINDING: property=%s %s [%s; %d case(s) this run]" % (self.prop, k["what"], kid, cnt))
        for k in self.known:
            if k.get("status") == "open" and k["id"] not in self.known_hits and k.get("must_reproduce"):
                print("NOTE: known finding %s did not reproduce in this run (stale entry?)" % k["id"])
        done = set()
        for p, found in self.violations:
            if p is None or p in done:
                continue
            done.add(p)
            print("VIOLATION property=%s replay=%s%s" % (self.prop, p, "" if found else " no-failing-input-found"))
        print("%s %s tier=%s seed=%d: %d theorems checked, %d cases (%d distinct), %d violation(s), %.1fs" % (
            self.prop, "FAIL" if nviol else "ok", self.tier, self.seed, self.discharged, self.evaluations,
            len(self.distinct), nviol, wall))
        return 1 if nviol else 0


def load_known(prop):
    p = os.path.join(VERIF, "known_findings.json")
    if not os.path.exists(p):
        return []
    data = json.load(open(p))
    return [f for f in data.get("findings", []) if f["property"] == prop and f.get("status") == "open"]


def match_known(known, obj):
    """A violation object is attributed to a known finding when its 'finding' field names it
    (set by the per-property code from a decidable input-shape predicate) — never by default."""
    fid = obj.get("finding")
    if fid is None:
        return None
    for f in known:
        if f["id"] == fid:
            return fid
    return None


def read_lines(path):
    with open(path, encoding="utf-8", errors="replace") as f:
        return [l.rstrip("\n") for l in f]
