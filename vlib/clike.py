"""Shared machinery of C03 / C04 / C05 (and the C-like part of C15): regenerate the operator tables
by probing the real HLSL / MSL / GLSL writers, re-prove, run the emitted text through the Lean
interpreter of the target language against the WGSL reference evaluator."""
import os
import re
import subprocess
import sys

from vlib import common

N = {"quick": 500, "thorough": 12000}
FLOW_MODELS = ("msl", "hlsl", "glsl")      # dialects whose statement writer has a Lean model (Naga.Model.CFlow)


def unq(s):
    return s.replace("\\n", "\n").replace('\\"', '"').replace("\\\\", "\\")


def err_class(r):
    if not r.startswith("DISAGREE"):
        return "ok"
    i = r.find("-error[")
    if i >= 0:
        return re.sub(r"[0-9]+", "N", r[i + 7:]).rstrip("]")
    return "values"


def shrunk_map(path):
    out = {}
    if os.path.exists(path):
        for l in common.read_lines(path):
            m = re.match(r'"((?:[^"\\]|\\.)*)" "((?:[^"\\]|\\.)*)"', l)
            if m:
                head = unq(m.group(1))
                out.setdefault(head.split(" | ")[0], (head, unq(m.group(2))))
    return out


def regenerate_and_prove(ck, prop_modules):
    """R: probe all three writers, regenerate Gen/CTables.lean, re-check Tie + Props."""
    pd = ck.harness("cprobe", 0)
    if pd is None:
        return False
    with common.Lock("lake"):
        subprocess.run([sys.executable, os.path.join(common.VERIF, "tools", "gen_ctables.py"), pd], check=True,
                       stdout=subprocess.DEVNULL)
    ck.stats["cprobe"] = ck.stats.get("cprobe", {})
    return ck.prove(["Naga.Tie.CEmit"] + prop_modules)


def find_known(ck, dialect, knob, tag, cls):
    for k in ck.known:
        mt = k.get("match", {})
        if mt.get("dialect") not in (None, dialect):
            continue
        if "knob" in mt and mt["knob"] != knob:
            continue
        if "tag_regex" in mt and not re.search(mt["tag_regex"], tag):
            continue
        if "knob" not in mt and "tag_regex" not in mt:
            continue
        if re.search(mt.get("error_class_regex", "$^"), cls):
            return k["id"]
    return None


def sweep(ck, dialect, cmd, n, glsl_ub_excluded=False, label=""):
    """K/S: generated programs (cmd = csem) or executed operator probes (cmd = cprobesem)."""
    out = ck.harness(cmd, n, extra_args=[dialect], timeout=7000, subdir=cmd + "-" + dialect)
    if out is None:
        return False
    cases = os.path.join(out, "cases.txt")
    if not os.path.exists(cases):
        ck.tie_broken("no-cases", "the harness produced no case for " + dialect, open(os.path.join(out, "log")).read()[-2000:] if os.path.exists(os.path.join(out, "log")) else "")
        return False
    if not ck.run_driver(["csem"], cases, os.path.join(out, "model.txt")):
        return False
    res = common.read_lines(os.path.join(out, "model.txt"))
    srcs = common.read_lines(os.path.join(out, "src.txt"))
    tags = common.read_lines(os.path.join(out, "tags.txt"))
    texts = common.read_lines(os.path.join(out, "text.txt"))
    sh = shrunk_map(os.path.join(out, "shrunk.txt"))
    per_knob = {}
    reported = set()
    skipped = {}
    found = False
    for i, (r, s, t) in enumerate(zip(res, srcs, tags)):
        knob = t.split(" ")[0]
        ck.case(dialect + s + t + str(i if cmd == "cprobesem" else ""),
                nontrivial=cmd == "cprobesem" or any(k in s for k in ("if ", "loop", "for ", "while", "switch", "helper")))
        pk = per_knob.setdefault(knob if not knob.startswith("probe:") else "probe", [0, 0])
        pk[0] += 1
        if r.startswith("skip"):
            key = re.sub(r"[0-9]+", "N", r)[:80]
            skipped[key] = skipped.get(key, 0) + 1
            continue
        if r.startswith("agree"):
            continue
        cls = err_class(r)
        if cls == "values" and re.match(r"probe:f2[iu]nan_", knob):
            # WGSL leaves the integer converted from a NaN open: only definedness is required
            skipped["NaN conversion result differs (indeterminate in WGSL)"] = skipped.get("NaN conversion result differs (indeterminate in WGSL)", 0) + 1
            continue
        if glsl_ub_excluded and cls.startswith("UB:"):
            # C05 is stated only for executions on which GLSL defines the result
            key = "excluded by the property (GLSL-undefined): " + cls
            skipped[key] = skipped.get(key, 0) + 1
            continue
        pk[1] += 1
        fid = find_known(ck, dialect, knob, t, cls)
        key = (knob, cls)
        if fid is None:
            found = True
            if key in reported:
                continue
        if fid is None:      # a listed finding never hides a later unlisted violation of the same class
            reported.add(key)
        ck.violation({"kind": dialect + "-changes-meaning", "finding": fid, "options": t, "result": r[:2000],
                      "wgsl": unq(s[1:-1]), "emitted": unq(texts[i][1:-1])[:30000] if i < len(texts) else None,
                      "shrunk": sh.get("%s %s" % (knob, cls)),
                      "how": "running the emitted %s text (Lean interpreter of the target language, real output of the back end) "
                             "differs from the WGSL reference evaluation, hits target-language undefined behaviour, or is ill-formed"
                             % dialect.upper()}, found_input=True)
    ck.extra.setdefault("skipped", {})[cmd + "-" + dialect] = skipped
    ck.extra.setdefault("programs_and_disagreements_per_knob", {})[cmd + "-" + dialect] = per_knob
    if res and srcs:
        ck.samples.append({"dialect": dialect, "options": tags[0], "wgsl": unq(srcs[0][1:-1])[:900], "result": res[0][:200]})
    st = ck.stats.get(cmd + "-" + dialect, {})
    for bad in ("backend-error", "cparse-error"):
        if st.get(bad):
            f = os.path.join(out, bad.replace("-error", "-errors") + ".txt")
            lines = common.read_lines(f) if os.path.exists(f) else []
            first = lines[0] if lines else ""
            m = re.match(r'"((?:[^"\\]|\\.)*)" "((?:[^"\\]|\\.)*)"', first)
            msg = unq(m.group(1)) if m else first[:300]
            fid = find_known(ck, dialect, "", "", bad + ": " + msg)
            ck.violation({"kind": bad, "finding": fid, "dialect": dialect, "count": st[bad], "message": msg,
                          "input": unq(m.group(2))[:4000] if m else None,
                          "how": "the back end refused a valid generated program" if bad == "backend-error" else
                                 "the emitted text is outside the C-like grammar the independent parser reads"}, found_input=True)
            if fid is None:
                found = True
    return found


def access_sweep(ck, dialect, hostile):
    """Access-shape probes: the emitted text is run on in-range indices (C03-C05) or hostile indices under the
    protective option sets (C15) and compared with the output WGSL prescribes (oracle in the harness)."""
    mode = "hostile" if hostile else "inrange"
    sub = "caccess-%s-%s" % (dialect, mode)
    how = "the emitted %s text, run by the Lean interpreter on this index, %s" % (
        dialect.upper(), "performs an out-of-object access / undefined operation or does not give the value the selected "
        "bounds-check policy prescribes" if hostile else "does not access the element WGSL prescribes")
    expected_sweep(ck, dialect, "caccess", 0, [dialect] + (["hostile"] if hostile else []), sub,
                   dialect + ("-hostile-index" if hostile else "-access-changes-meaning"), how,
                   empty_note="%s offers no index bounds-check policy: no hostile access case generated" % dialect if hostile else None)


def output_matches(r, e):
    """`r`: driver line `ok [(binding, [words…]), …]`; `e`: `[w, …]` (the read-write buffer, binding 1) or
    `b:[w, …];b:[…]` with `*` for don't-care (padding) words."""
    if not r.startswith("ok"):
        return False
    got = {int(b): [x.strip() for x in ws.split(",")] for b, ws in re.findall(r"\((\d+), \[([^\]]*)\]\)", r)}
    parts = e.split(";") if re.match(r"^\d+:", e) else ["1:" + e]
    for part in parts:
        b, ws = part.split(":", 1)
        want = [x.strip() for x in ws.strip().strip("[]").split(",")]
        g = got.get(int(b))
        if g is None or len(g) != len(want) or any(w != "*" and w != x for w, x in zip(want, g)):
            return False
    return True


def storage_sweep(ck, dialect, hostile):
    """Storage-buffer probes (HLSL byte-address expansion): whole-value copies, element stores, dynamic loads and
    dynamically indexed local copies of arrays / matrices inside a struct, against the WGSL layout rules."""
    mode = "hostile" if hostile else "inrange"
    expected_sweep(ck, dialect, "cstorage", 0, [dialect] + (["hostile"] if hostile else []), "cstorage-%s-%s" % (dialect, mode),
                   dialect + "-storage-access-changes-meaning",
                   "the emitted %s text, run by the Lean interpreter, leaves the storage buffers with other contents than the WGSL "
                   "layout rules prescribe (or traps on an out-of-object subscript of a local copy)" % dialect.upper())


def expected_sweep(ck, dialect, cmd, n, args, sub, kind, how, empty_note=None):
    """Run a harness command that writes cases.txt + expected.txt (oracle computed from the WGSL rules in the harness),
    execute the cases with the Lean interpreters and compare the read-write buffer."""
    out = ck.harness(cmd, n, extra_args=args, timeout=3000, subdir=sub)
    if out is None:
        return
    cases = os.path.join(out, "cases.txt")
    if not os.path.exists(cases):
        if empty_note:
            ck.notes.append(empty_note)
            return
        ck.tie_broken("no-cases", "the harness produced no case for " + sub, "")
        return
    if not ck.run_driver(["csem"], cases, os.path.join(out, "model.txt")):
        return
    res = common.read_lines(os.path.join(out, "model.txt"))
    exp = common.read_lines(os.path.join(out, "expected.txt"))
    tags = common.read_lines(os.path.join(out, "tags.txt"))
    srcs = common.read_lines(os.path.join(out, "src.txt"))
    texts = common.read_lines(os.path.join(out, "text.txt")) if os.path.exists(os.path.join(out, "text.txt")) else []
    reported = set()
    stat = {"agree": 0}
    for i, (r, e, t) in enumerate(zip(res, exp, tags)):
        ck.case(sub + t + str(i), nontrivial=True)
        if output_matches(r, e):
            stat["agree"] += 1
            continue
        cls = "values" if r.startswith("ok") else re.sub(r"[0-9]+", "N", r[6:]).rstrip("]") if r.startswith("error[") else r[:60]
        shape = t.split(" ")[0]
        stat[cls[:60]] = stat.get(cls[:60], 0) + 1
        fid = find_known(ck, dialect, "", t, cls)
        key = (":".join(shape.split(":")[1:4]), cls)
        if fid is None and key in reported:
            continue
        if fid is None:      # a listed finding never hides a later unlisted violation of the same class
            reported.add(key)
        ck.violation({"kind": kind, "finding": fid, "case": t,
                      "got": r[:1500], "expected_outp": e, "wgsl": unq(srcs[i][1:-1]),
                      "emitted": unq(texts[i][1:-1])[:30000] if i < len(texts) else None, "how": how},
                     found_input=True)
    ck.extra.setdefault("access_probes", {})[sub] = stat
    st = ck.stats.get(sub, {})
    if st.get("prefix-array-declarator"):
        fid = find_known(ck, dialect, "", "prefix-array-declarator", "prefix-array-declarator")
        f = os.path.join(out, "prefix-array.txt")
        ck.violation({"kind": "ill-formed-text", "finding": fid, "dialect": dialect, "count": st["prefix-array-declarator"],
                      "emitted": unq(common.read_lines(f)[0][1:-1])[:3000] if os.path.exists(f) else None,
                      "how": "a module-scope array variable is declared `T[N] name`, which no C-family grammar accepts"}, found_input=True)
    for bad in ("backend-error", "cparse-error"):
        if st.get(bad):
            f = os.path.join(out, bad.replace("-error", "-errors") + ".txt")
            lines = common.read_lines(f) if os.path.exists(f) else []
            mm = re.match(r'"((?:[^"\\]|\\.)*)" "((?:[^"\\]|\\.)*)"', lines[0] if lines else "")
            msg = unq(mm.group(1)) if mm else ""
            ck.violation({"kind": bad, "finding": find_known(ck, dialect, "", "", bad + ": " + msg), "dialect": dialect, "count": st[bad],
                          "message": msg, "input": unq(mm.group(2))[:4000] if mm else None}, found_input=True)


def helpers_check(ck, dialect, n):
    """Exact-overload check: every call of a naga_* helper in the emitted text has an overload whose parameter types are exactly
    the static types of its arguments (C-family overload resolution would otherwise convert silently, e.g. int64_t -> int)."""
    out = ck.harness("chelpers", n, extra_args=[dialect], timeout=3000, subdir="chelpers-" + dialect)
    if out is None:
        return
    st = ck.stats.get("chelpers-" + dialect, {})
    for _ in range(st.get("programs", 0)):
        ck.evaluations += 1
    miss = os.path.join(out, "missing.txt")
    if os.path.exists(miss):
        l = common.read_lines(miss)[0]
        m = re.match(r'"((?:[^"\\]|\\.)*)" "((?:[^"\\]|\\.)*)" "((?:[^"\\]|\\.)*)"', l)
        ck.violation({"kind": dialect + "-helper-overload-missing", "count": st.get("missing-overload"),
                      "calls": unq(m.group(1)) if m else l[:500], "wgsl": unq(m.group(2)) if m else None,
                      "emitted": unq(m.group(3))[:6000] if m else None,
                      "how": "a helper call in the emitted text has no overload with exactly the argument types: overload resolution "
                             "binds it to another overload through an implicit (narrowing) conversion, so the operation is computed in the wrong type"},
                     found_input=True)
    for bad in ("backend-error", "cparse-error"):
        if st.get(bad):
            f = os.path.join(out, bad.replace("-error", "-errors") + ".txt")
            lines = common.read_lines(f) if os.path.exists(f) else []
            ck.violation({"kind": bad, "dialect": dialect, "count": st[bad], "first": lines[0][:3000] if lines else None}, found_input=True)


def flow_sweep(ck, dialect, n, enum_size=None):
    """Statement-level tie: for every function of generated programs, the control-flow skeleton of the emitted text (read by
    the independent parser) must be exactly the erasure of `CFlow.emit` applied to the skeleton of naga's IR statement tree,
    and the IR tree must satisfy the well-formedness hypotheses of the statement-level theorem."""
    sub = ("cflowenum-" if enum_size else "cflow-") + dialect
    out = ck.harness("cflow", n, extra_args=[dialect] + (["enum", str(enum_size)] if enum_size else []), timeout=3000, subdir=sub)
    if out is None:
        return
    cases = os.path.join(out, "cases.txt")
    if not os.path.exists(cases):
        ck.tie_broken("no-cases", "the harness produced no control-flow case for " + dialect, "")
        return
    if not ck.run_driver(["cflow"], cases, os.path.join(out, "model.txt")):
        return
    res = common.read_lines(os.path.join(out, "model.txt"))
    srcs = common.read_lines(os.path.join(out, "src.txt"))
    texts = common.read_lines(os.path.join(out, "text.txt"))
    tags = common.read_lines(os.path.join(out, "tags.txt"))
    stat = {}
    reported = 0
    for i, (r, t) in enumerate(zip(res, tags)):
        ck.case(sub + srcs[i] + t, nontrivial=("while" in r or "switch" in r or r == "match"))
        key = r.split(" ")[0]
        stat[key] = stat.get(key, 0) + 1
        if r == "match" or r.startswith("skip"):
            continue
        if reported < 3:
            reported += 1
            ck.violation({"kind": dialect + "-control-flow-differs-from-model", "case": t, "result": r[:3000],
                          "wgsl": unq(srcs[i][1:-1]), "emitted": unq(texts[i][1:-1])[:30000],
                          "how": "the control-flow skeleton of the emitted text is not what the proved emission scheme (Naga.Model.CFlow) "
                                 "produces for this function (or the IR tree violates a hypothesis of the theorem): the statement-level "
                                 "theorem no longer applies to this output; the executed sweeps search for an input on which it matters"},
                         found_input=False)
    ck.extra.setdefault("control_flow_tie", {})[sub] = stat


def bake_sweep(ck, dialect, n):
    """Tie of the expression-level baking theorem (Props/Bake.bake_sound): its hypothesis `AllLoadsBaked` is read off the
    real output — every emitted Load of every function has its own temporary (`_e<handle>` or the `let` name) in the text."""
    sub = "cbake-" + dialect
    out = ck.harness("cbake", n, extra_args=[dialect], timeout=3000, subdir=sub)
    if out is None:
        return
    rows = common.read_lines(os.path.join(out, "rows.txt")) if os.path.exists(os.path.join(out, "rows.txt")) else []
    if not rows:
        ck.tie_broken("no-cases", "the harness produced no baking case for " + dialect, "")
        return
    srcs = common.read_lines(os.path.join(out, "src.txt"))
    texts = common.read_lines(os.path.join(out, "text.txt"))
    st = ck.stats.get(sub, {})
    reported = 0
    for i, r in enumerate(rows):
        ck.case(sub + r + str(i), nontrivial=("loads=0" not in r))
        if r.startswith("baked"):
            continue
        if reported < 3:
            reported += 1
            ck.violation({"kind": dialect + "-load-without-temporary", "row": r, "wgsl": unq(srcs[i][1:-1]),
                          "emitted": unq(texts[i][1:-1])[:30000],
                          "how": "a Load expression of naga's IR has no temporary of its own in the emitted text: the hypothesis of "
                                 "Naga.Props.Bake.bake_sound (every load is evaluated where the IR emits it) is not met by this output; "
                                 "Bake.unbaked_load_witness shows the order of evaluation can then differ. The executed sweeps (csem) "
                                 "search for an input on which it matters"}, found_input=False)
    for bad in ("function-not-in-text", "cparse-error"):
        if st.get(bad):
            ck.violation({"kind": "bake-tie-" + bad, "dialect": dialect, "count": st[bad]}, found_input=False)
    ck.extra.setdefault("bake_tie", {})[sub] = {"functions": st.get("functions", 0), "loads": st.get("loads", 0),
                                                 "unbaked": sum(1 for r in rows if not r.startswith("baked"))}


def builtins_sweep(ck, dialect):
    """Every WGSL builtin function x operand shape with run-time operands: the emitted text must be readable and every function
    it calls must exist in the text or in the target language."""
    sub = "cbuiltins-" + dialect
    out = ck.harness("cbuiltins", 0, extra_args=[dialect], timeout=900, subdir=sub)
    if out is None:
        return
    rows = common.read_lines(os.path.join(out, "rows.txt")) if os.path.exists(os.path.join(out, "rows.txt")) else []
    if not rows:
        ck.tie_broken("no-cases", "the harness produced no builtin probe for " + dialect, "")
        return
    srcs = common.read_lines(os.path.join(out, "src.txt"))
    texts = common.read_lines(os.path.join(out, "text.txt"))
    stat = {}
    seen = set()
    for r, s, t in zip(rows, srcs, texts):
        head = r.split(" | ")[0]
        ck.case(sub + r, nontrivial=True)
        k = head.split(" ")[0]
        stat[k] = stat.get(k, 0) + 1
        if k == "ok":
            continue
        cls = re.sub(r"[0-9]+", "N", head)[:80]
        if cls in seen:
            continue
        seen.add(cls)
        fid = find_known(ck, dialect, "", "builtin:" + r, cls)
        ck.violation({"kind": dialect + "-builtin-" + ("calls-missing-function" if k == "missing" else k), "finding": fid, "probe": r,
                      "wgsl": unq(s[1:-1]), "emitted": unq(t[1:-1])[:5000],
                      "how": "the text emitted for a WGSL builtin function calls a function that neither the text nor the target language defines, "
                             "is unreadable, or the back end / front end refused the valid program"}, found_input=True)
    ck.extra.setdefault("builtin_probes", {})[sub] = stat


def glslfold_tie(ck):
    """Tie of Naga.Model.GlslFold (Props/GlslFold.fold_sound) with the real GLSL writer: on every constant-fold probe the
    writer's decision (literal or expression) and the literal's value, read from the emitted text by the independent parser,
    must be the model's."""
    out = ck.harness("cglslfold", 0, timeout=600, subdir="cglslfold")
    if out is None:
        return
    cases = os.path.join(out, "cases.txt")
    if not os.path.exists(cases):
        ck.tie_broken("no-cases", "the harness produced no constant-fold case", "")
        return
    if not ck.run_driver(["glslfold"], cases, os.path.join(out, "model.txt")):
        return
    cs = common.read_lines(cases)
    impl = common.read_lines(os.path.join(out, "impl.txt"))
    model = common.read_lines(os.path.join(out, "model.txt"))
    srcs = common.read_lines(os.path.join(out, "src.txt"))
    texts = common.read_lines(os.path.join(out, "text.txt"))
    stat = {"agree": 0, "differ": 0, "folded": 0}
    for c, a, b, s, t in zip(cs, impl, model, srcs, texts):
        ck.case("glslfold" + c, nontrivial=True)
        if a.startswith("fold"):
            stat["folded"] += 1
        if a == b:
            stat["agree"] += 1
            continue
        stat["differ"] += 1
        if stat["differ"] <= 3:
            ck.violation({"kind": "glsl-constant-folding-differs-from-model", "case": c, "implementation": a, "model": b,
                          "wgsl": unq(s[1:-1]), "emitted": unq(t[1:-1])[:4000],
                          "how": "the GLSL writer folds (or does not fold) this integer expression differently from Naga.Model.GlslFold, "
                                 "whose folding is proved to yield the WGSL value (fold_sound): the theorem no longer speaks about this "
                                 "writer; the executed constant-fold probes (cprobesem) are the search for an input on which it matters"},
                         found_input=False)
    ck.extra["glsl_fold_tie"] = stat


def run(ck, dialect, prop_module, glsl_ub_excluded=False):
    ck.trusted = ["Lean kernel", "axioms: propext, Classical.choice, Quot.sound",
                  "L1 semantics: Sem.Ops / Sem.Wgsl (WGSL), Sem.COps / Sem.CLike (target language)",
                  "Go harness: generator, cparse (independent parser of the emitted text), probes"]
    if not ck.build_harness():
        return
    proved = regenerate_and_prove(ck, [prop_module] + (["Naga.Props.CFlow"] if dialect == "msl" else ["Naga.Props.CFlowF"]) + ["Naga.Props.Bake", "Naga.Props.Pack4", "Naga.Props.BitField"]
                                  + (["Naga.Props.GlslFold"] if dialect == "glsl" else []))
    if not ck.driver():
        return
    n = N.get(ck.tier, N["quick"])
    sweep(ck, dialect, "cprobesem", 0, glsl_ub_excluded)
    access_sweep(ck, dialect, hostile=False)
    if dialect == "hlsl":
        storage_sweep(ck, dialect, hostile=False)
    if dialect in ("hlsl", "msl"):
        helpers_check(ck, dialect, {"quick": 150, "thorough": 4000}.get(ck.tier, 150))
    if dialect in FLOW_MODELS:
        flow_sweep(ck, dialect, {"quick": 300, "thorough": 6000}.get(ck.tier, 300))
        # exhaustive small scope: every statement tree of at most 3 (thorough: 4) nodes
        flow_sweep(ck, dialect, 0, enum_size={"quick": 3, "thorough": 4}.get(ck.tier, 3))
    bake_sweep(ck, dialect, {"quick": 200, "thorough": 5000}.get(ck.tier, 200))
    builtins_sweep(ck, dialect)
    if dialect == "glsl":
        glslfold_tie(ck)
    sweep(ck, dialect, "csem", n, glsl_ub_excluded)
    # workgroup memory through helpers, incl. a store through a ptr<workgroup, u32> parameter (shared with C15): the expected
    # output of every entry point is computed by the generator
    expected_sweep(ck, dialect, "cwg", {"quick": 60, "thorough": 1500}.get(ck.tier, 60), [dialect], "cwg-" + dialect,
                   dialect + "-workgroup-program-differs",
                   "an entry point of the emitted %s does not compute what the WGSL program prescribes for its workgroup variables "
                   "(zero-initialised; stores through pointer parameters visible to the caller)" % dialect.upper())
    if ck.tier == "thorough":
        ck.leanchecker(["Naga.Tie.CEmit", prop_module])
    if not proved:
        ck.violation({"kind": "tie-broken", "what": "Naga.Tie.CEmit / " + prop_module,
                      "why": "an operator pattern or helper body probed from the real writers no longer matches the model "
                             "(or a theorem no longer checks); the executed probes (cprobesem) above are the failing-input search",
                      "detail": str(getattr(ck, "proof_failed", ""))[:3000]}, found_input=False)
