"""C05 — GLSL output computes what the WGSL program means."""
from vlib import clike

LEVEL = "proof"
DIALECT = "glsl"
EXPLANATION = ("Lean theorems (Naga.Props.C05): GLSL integer + - * and unary - wrap, so the writer's plain spellings are total and equal to WGSL on all operands (glsl_wrapping_total); for every binary operator x kind the selected pattern equals the WGSL value on every operand pair on which GLSL defines the plain operator (glsl_binop_sound_partial: the hypothesis GlslDefined is exactly the restriction the property itself makes - no /0, no INT_MIN/-1, no % with a negative operand, shift amount < 32), with kernel-checked witnesses that the hypothesis is needed (5/0, INT_MIN/-1, 1u<<32u). Regenerated tie (incl. the vector spellings equal()/lessThan()/not()/bvec(&&)) and program-level execution as for C03 with the GLSL subset interpreter (std430 buffer blocks bound by binding, whole-vector == / !=, scalar-only ?:, constructors, bit-pattern literals, findLSB/findMSB/bitCount/bitfieldReverse, mix with bvec). Executions that hit GLSL-undefined behaviour are outside the property and are counted as excluded, not failed. Per-entry-point reachability (reachability.go) is exercised by execution only (a dropped callee is an undeclared-function error).")
ASSUMPTIONS = [
    "Lean 4 kernel; axioms propext, Classical.choice, Quot.sound only",
    "Sem.COps / Sem.CLike are my reading of the GLSL language documents (trusted): signed overflow wraps (GLSL 4.60 5.9); integer /0, %0 and INT_MIN/-1 "
    "undefined; shift amounts >= 32 undefined; % with a negative operand undefined; float->int conversion of NaN / out-of-range values undefined; uninitialised variables are poison",
    "Sem.Ops / Sem.Wgsl are my reading of WGSL (trusted); floats through Lean Float32 (+ - * / and comparisons only, small integral values)",
    "the C-like parser (harness/cparse.go) is trusted to read the text as a C-family front end would; anything it cannot read is reported, never skipped",
    "one invocation; buffers are array<u32> (struct layouts: C07); no textures/atomics/barriers/subgroups; float builtins other than abs/min/max not executed",
    "theorems cover scalar operands; vector probes are tied syntactically (same pattern with vector type names) and executed, not proved",
]
RULE = ('executed operator probes: every (operator | integer builtin) x (i32, u32) x (scalar, vec3) one-operator program is compiled by the real back end under the default and one random option set and run on 10 boundary-heavy operand vectors (0, 1, 31, 32, 33, INT_MAX, INT_MIN, INT_MIN+1, -1, -2, 65535, 65536 + random); generated programs: the type-directed generator of C01 (helpers with value and pointer parameters, let/var/const, if/switch/loop/for/while/continuing/break-if, compound assignment, swizzles, constructors, integer builtins, conversions, private globals, structs/arrays) under random glsl.Options (core 430/450/460, ES 310/320, WriterFlagExplicitTypes, ForceHighPrecision); 16-word input/output buffers with boundary and random contents; 80% of the programs avoid the recorded defects of this back end, 20% enable one risky feature each; distinct by source text + options; non-trivial = has control flow or a helper')


def run(ck):
    ck.rule = RULE
    clike.run(ck, DIALECT, "Naga.Props.C05", glsl_ub_excluded=(DIALECT == "glsl"))
