"""C16 — user identifiers never clash with target keywords, helpers or each other."""
from vlib import common
import os, re, subprocess, sys

LEVEL = "proof"
EXPLANATION = (
    "Lean theorems (Naga.Props.C16) about models of the three namers: sanitize never returns a name ending in '_' (all "
    "Unicode labels, 3 dialects); the spelling of (base, collision count) is injective; hence call_injective: for every "
    "label sequence from any counters all names handed out in one naming scope are pairwise distinct; call_not_reserved: "
    "no returned name is a reserved word, given table coverage + closedness. Regenerated tie (R): the keyword tables are "
    "dumped from the current code by the verif hooks into Naga/Gen/Keywords.lean on every run and the kernel re-checks "
    "(Naga.Tie.C16, decide +kernel on Nat codes) that every reserved word of HLSL / MSL+C++14 / GLSL (hand-entered "
    "lists, /verif/spec) is in the table or ends in a digit, that tables are strictly sorted, that the reserved-word "
    "lists are closed (no 'x_' / 'x_N' forms). Correspondence (K): sanitize on adversarial labels and random "
    "call/reserve/namespace/reset sequences run on the real namers through the hooks vs the models, name for name. "
    "A missing keyword yields a replay program using it as an identifier, compiled by the real backend. Generated names (S): "
    "for generated programs every identifier the back end introduces into the text is given to a user local, parameter, helper, "
    "struct, field, constant or private global in turn; the renamed program's text is executed by the target-language interpreter "
    "against the WGSL reference (found: a user `_group_0_binding_1_cs` hid the GLSL storage buffer; repaired).")
ASSUMPTIONS = [
    "Lean 4 kernel; axioms propext, Classical.choice, Quot.sound only",
    "reserved-word lists in /verif/spec are my transcription of the HLSL, MSL/C++14, GLSL 4.60 specifications",
    "the Nat coding of words (Codes.enc) is computed by the generator scripts; the lemma connecting code-level table facts to the string-level hypotheses of call_not_reserved is not yet proved (stated gap)",
    "names emitted without going through the namer (temporaries, type_N, naga_* helpers, _group_G_binding_B_stage, loop machinery) are "
    "covered by execution only (c16clash: a user identifier renamed to every identifier the back end introduced; target-language "
    "interpreter vs WGSL reference), not by the namer theorems",
    "Go harness + verif hooks in hlsl/msl/glsl",
]
N = {"quick": 400, "thorough": 20000}
B = 1114112


def enc(w):
    a = 1
    for ch in w:
        a = a * B + ord(ch)
    return a


def run(ck):
    ck.rule = ("labels from a pool of target keywords in several case variants, naga helper/temporary patterns, trailing "
               "digits/underscores, separators, non-ASCII, plus random strings; op sequences of 1-25 ops over a 2-6 label "
               "pool so collisions are frequent (HLSL also reserve/namespace/reset); distinct by case line")
    ck.trusted = ["Lean kernel", "axioms: propext, Classical.choice, Quot.sound", "/verif/spec reserved-word lists",
                  "generator scripts (Nat coding)", "Go harness and namer hooks"]
    if not ck.build_harness():
        return
    out = ck.harness("c16", N.get(ck.tier, 400))
    if out is None:
        return
    # R: regenerate the keyword facts from the current code, then re-prove
    subprocess.run([sys.executable, os.path.join(common.VERIF, "tools", "gen_keywords.py"), os.path.join(out, "tables.txt")], check=True)
    subprocess.run([sys.executable, os.path.join(common.VERIF, "tools", "gen_spec_keywords.py")], check=True, stdout=subprocess.DEVNULL)
    if not ck.prove(["Naga.Tie.C16", "Naga.Props.C16", "Naga.Props.Redecl"]):
        search_missing_keyword(ck, out)
    if not ck.driver():
        return
    if not ck.run_driver(["c16"], os.path.join(out, "cases.txt"), os.path.join(out, "model.txt")):
        return
    cases = common.read_lines(os.path.join(out, "cases.txt"))
    impl = common.read_lines(os.path.join(out, "impl.txt"))
    model = common.read_lines(os.path.join(out, "model.txt"))
    if not (len(cases) == len(impl) == len(model)):
        ck.tie_broken("c16-lines", "line count mismatch", "%d %d %d" % (len(cases), len(impl), len(model)))
        return
    shown = set()
    for c, a, b in zip(cases, impl, model):
        kind = c.split(" ", 2)[0] + (" " + c.split(" ", 2)[1] if c.startswith("(namer") else "")
        ck.case(c, nontrivial=True)
        if kind not in shown:
            shown.add(kind)
            ck.samples.append({"case": c[:300], "implementation": a[:300], "model": b[:300]})
        if a != b:
            viol = {"kind": "namer-mismatch", "case": c, "expected_model": b, "observed": a,
                    "how": "the real namer and the model (for which distinctness / non-reservedness are proved) disagree"}
            # search: does the real output itself break the property?  duplicates within one scope:
            if c.startswith("(namer") and "ns-enter" not in c and "(reset)" not in c:
                names = re.findall(r'"((?:[^"\\]|\\.)*)"', a)
                if len(names) != len(set(names)):
                    viol["how"] = "the real namer handed out the same spelling twice within one scope"
                    viol["duplicate"] = [n for n in names if names.count(n) > 1][:3]
                    ck.violation(viol, found_input=True)
                    continue
            ck.violation(viol, found_input=False)
    # end to end: the reported entry-point name mapping names a function that exists in the output
    ep = ck.harness("c16ep", {"quick": 200, "thorough": 6000}.get(ck.tier, 200))
    if ep is not None:
        st = ck.stats.get("c16ep", {})
        for _ in range(st.get("mappings", 0)):
            ck.evaluations += 1
        vf = os.path.join(ep, "ep-violations.txt")
        if os.path.exists(vf):
            for l in common.read_lines(vf)[:3]:
                m = re.match(r'"((?:[^"\\]|\\.)*)" "((?:[^"\\]|\\.)*)" "((?:[^"\\]|\\.)*)"', l)
                un = lambda x: x.replace("\\n", "\n").replace('\\"', '"').replace("\\\\", "\\")
                ck.violation({"kind": "entry-point-name-mapping", "what": un(m.group(1)) if m else l[:400],
                              "wgsl": un(m.group(2)) if m else None, "emitted": un(m.group(3))[:4000] if m else None,
                              "how": "TranslationInfo.EntryPointNames does not name a function definition of the emitted text "
                                     "(text read by the independent parser)"}, found_input=True)
    # names the back ends generate without the namer (temporaries, type names, helper functions, resource names, loop
    # machinery): a user identifier renamed to such a spelling must not change what the emitted text computes
    from vlib import clike
    for dialect in ("hlsl", "msl", "glsl"):
        clike.sweep(ck, dialect, "c16clash", {"quick": 40, "thorough": 1500}.get(ck.tier, 40), glsl_ub_excluded=(dialect == "glsl"))
    # vertex / fragment entry points whose arguments, members, locals and struct types share spellings with each other and
    # with the interface structs and temporaries the writers generate: no text may declare one name twice in one scope
    from vlib.props import c17
    c17.iface_sweep(ck, names_only=True)


def search_missing_keyword(ck, out):
    """The proof obligations broke: find a reserved word the table no longer covers and replay it."""
    tabs = {}
    for l in common.read_lines(os.path.join(out, "tables.txt")):
        name = l[1:].split(" ", 1)[0]
        tabs[name] = set(re.findall(r'"((?:[^"\\]|\\.)*)"', l))
    spec = lambda *fs: set(w for f in fs for w in open(os.path.join(common.VERIF, "spec", f)).read().split())
    want = {"hlsl": (spec("hlsl_keywords.txt"), tabs.get("hlslSensitive", set())),
            "msl": (spec("cpp14_keywords.txt", "msl_keywords.txt"), tabs.get("msl", set())),
            "glsl": (spec("glsl_keywords.txt"), tabs.get("glsl", set()))}
    found = False
    for d, (sp, tb) in want.items():
        missing = sorted(w for w in sp if w not in tb and not w[-1].isdigit())
        for w in missing[:3]:
            rc, log = common.run([ck.vh, "c16e2e", "-out", out, w])
            res = ""
            p = os.path.join(out, "e2e.txt")
            if os.path.exists(p):
                res = open(p).read().strip()
            survived = ("%s=true" % d) in res
            ck.violation({"kind": "keyword-missing", "dialect": d, "word": w,
                          "wgsl": "var %s: i32 = 1; (see harness c16e2e)" % w, "backend_result": res,
                          "how": "reserved word of %s is not in the backend's keyword table%s" % (
                              d, "; the real backend emits it unescaped as an identifier" if survived else "")},
                         found_input=survived)
            found = True
    if not found:
        ck.tie_broken("theorems", "Naga.Tie.C16 / Naga.Props.C16 no longer check", str(ck.proof_failed))
