"""C11 — diagnosed classes of invalid programs are always rejected, at the right place."""
from vlib import common
import os, re

LEVEL = "proof"
EXPLANATION = (
    "Lean theorem (Naga.Props.C11 accept_iff_valid): the model of the lowerer's swizzle validation accepts a member name on a "
    "vector of a given width iff WGSL allows it (1-4 letters, one namespace, existing components) — for every name of any "
    "length and every width. Tie (K, exhaustive): every name up to length 3 (thorough: 4) over x y z w r g b a s q, widths 2-4, "
    "is compiled by the real front end and the accept/reject verdict compared with the model. Site sweep (K/S): 16 rule-breaking "
    "edits (undeclared identifier / function / type / struct member; wrong argument count / type; discarded @must_use result; "
    "false const_assert; @group without @binding and vice versa; non-positive array size; invalid swizzle; constant division by "
    "zero; missing @workgroup_size; missing semicolon; extra closing parenthesis; missing closing brace) are applied at random "
    "syntactic sites of generated valid programs (nested blocks, continuing blocks, helper functions, entry points, const "
    "initialisers, builtin arguments). Each edited program must be rejected by parse/lower/validate, the one-call compile must "
    "produce no output, and the reported line:column must lie inside the source — for the syntax edits exactly on the first "
    "token that cannot continue the grammar (computed from the edit position), for the semantic edits inside the module-scope "
    "declaration containing the edit. An accepted program or a misplaced position is the concrete failing input.")
ASSUMPTIONS = [
    "Lean 4 kernel; axioms propext, Classical.choice, Quot.sound only",
    "only the swizzle rule has a model and a theorem; the other rules are finite decision points checked by exploration over "
    "sites (no proof that every site is covered)",
    "the expected error token of a syntax edit is the first non-blank token after the deletion / the inserted token; sites are "
    "chosen where the following token cannot continue the construct (keyword or closing brace after a statement, declaration "
    "keyword after a function)",
    "Go harness: generator, AST/text editors, declaration-range computation",
]
N = {"quick": 2500, "thorough": 100000}


def unq(s):
    return s.replace("\\n", "\n").replace('\\"', '"').replace("\\\\", "\\")


def run(ck):
    ck.rule = ("(a) exhaustive swizzle names x widths; (b) one random edit per generated program (compute modules with structs, "
               "helpers, loops with continuing blocks, switches); distinct by edited source; non-trivial = every case")
    ck.trusted = ["Lean kernel", "axioms: propext, Classical.choice, Quot.sound", "Go harness (editors, expected positions)"]
    if not ck.prove(["Naga.Props.C11"]):
        ck.tie_broken("theorems", "Naga.Props.C11 no longer checks", str(ck.proof_failed))
    if ck.tier == "thorough":
        ck.leanchecker(["Naga.Props.C11"])
    if not ck.build_harness() or not ck.driver():
        return
    out = ck.harness("c11swz", 0)
    if out is not None and ck.run_driver(["c11"], os.path.join(out, "cases.txt"), os.path.join(out, "model.txt")):
        cases = common.read_lines(os.path.join(out, "cases.txt"))
        impl = common.read_lines(os.path.join(out, "impl.txt"))
        model = common.read_lines(os.path.join(out, "model.txt"))
        bad = 0
        for c, a, b in zip(cases, impl, model):
            ck.case(c)
            if a != b:
                bad += 1
                if bad <= 3:
                    nm, w = c.strip("()").split(" ")[1:3]
                    kind = "invalid-swizzle-accepted" if a == "accept" else "valid-swizzle-rejected"
                    ck.violation({"kind": kind, "swizzle": nm, "vector_width": w, "front_end": a, "wgsl_rule": b,
                                  "wgsl": "let v = vec%s<u32>(...); let s = v.%s;" % (w, nm),
                                  "how": "the front end's verdict on this component selection differs from the WGSL rule (= the model, by accept_iff_valid)"},
                                 found_input=True)
        ck.extra["swizzle_probes"] = len(cases)
    out = ck.harness("c11", N.get(ck.tier, N["quick"]), timeout=7000)
    if out is None:
        return
    cases = common.read_lines(os.path.join(out, "cases.txt"))
    impl = common.read_lines(os.path.join(out, "impl.txt"))
    srcs = common.read_lines(os.path.join(out, "src.txt"))
    tally = {}
    reported = set()
    for c, i, s in zip(cases, impl, srcs):
        rule = c.strip("()").split(" ")[1]
        site = "short-circuit-rhs" if "site=short-circuit-rhs" in c else ""
        ck.case(s)
        verdict, pos, where = (i.split(" | ")[0].split(" ") + ["", ""])[:3]
        msg = i.split(" | ", 1)[1] if " | " in i else ""
        tl = tally.setdefault(rule, {})
        key2 = verdict if verdict != "rejected" else "rejected:" + re.sub(r"[0-9]+", "N", where)
        tl[key2] = tl.get(key2, 0) + 1
        if len(ck.samples) < 3 and verdict == "rejected" and rule in ("missing-semicolon", "swizzle-invalid", "call-arg-type"):
            ck.samples.append({"rule": rule, "diagnostic": msg[:200], "position_verdict": where})
        if verdict == "rejected" and where in ("exact", "in-declaration"):
            continue
        if verdict != "rejected":
            kind, cls = "invalid-program-accepted", rule
            how = "the edited program breaks rule `%s` but is accepted (and %s)" % (rule, "compiled to output" if "COMPILED" in verdict else "lowered")
        else:
            kind, cls = "error-position-wrong", rule + ":" + re.sub(r"[0-9]+", "N", where)
            how = "the program is rejected but the reported position %s is %s" % (pos, where)
        fid = None
        src = unq(s[1:-1])
        for k in ck.known:
            mt = k.get("match", {})
            if mt.get("kind") != kind:
                continue
            if "site" in mt:
                # matched by the edit's site (decided by the harness on the AST), whatever the rule
                if mt["site"] == site:
                    fid = k["id"]
            elif re.search(mt.get("class_regex", ".*"), cls) and re.search(mt.get("source_regex", ""), src, re.S):
                fid = k["id"]
        key = (kind, cls)
        if fid is None and key in reported:
            continue
        if fid is None:      # a listed finding never hides a later unlisted violation of the same class
            reported.add(key)
        ck.violation({"kind": kind, "finding": fid, "rule": rule, "verdict": verdict, "position": pos, "position_verdict": where,
                      "diagnostic": msg[:500], "wgsl": src, "how": how}, found_input=True)
    ck.extra["results_per_rule"] = tally
