"""C04 — MSL output computes what the WGSL program means."""
from vlib import clike

LEVEL = "proof"
DIALECT = "msl"
EXPLANATION = ("Lean theorems (Naga.Props.C04 + C03 generic + C15 helpers): for every binary operator x operand kind the pattern the MSL writer emits (as_type<int>(as_type<uint>(a) op as_type<uint>(b)), naga_div / naga_mod / naga_neg / naga_abs calls, plain operators) evaluates under C++14/MSL semantics (signed overflow, /0 and INT_MIN/-1 undefined; shift amounts masked) to the WGSL value for ALL operand pairs with no undefined behaviour (msl_binop_sound); the helper bodies (metal::select forms) are total and WGSL-correct on all operands; naga_abs(INT_MIN) = INT_MIN; witness that the integer dot helper multiplies plain ints. Regenerated tie and program-level execution as for C03, with the MSL subset interpreter: reference parameters (device/thread/constant T&), entry-point [[buffer(n)]] plumbing, _mslBufferSizes, DefaultConstructible(), array-wrapper structs and brace initialisers, metal:: intrinsics, as_type / static_cast. Struct padding / packed-vec3 layout is checked by C07's C++ layout model; not re-proved here.")
ASSUMPTIONS = [
    "Lean 4 kernel; axioms propext, Classical.choice, Quot.sound only",
    "Sem.COps / Sem.CLike are my reading of the MSL language documents (trusted): signed overflow undefined; integer /0, %0 and INT_MIN/-1 "
    "undefined; shift amounts masked to 5 bits; float->int conversion of NaN / out-of-range values undefined; uninitialised variables are poison",
    "Sem.Ops / Sem.Wgsl are my reading of WGSL (trusted); floats through Lean Float32 (+ - * / and comparisons only, small integral values)",
    "the C-like parser (harness/cparse.go) is trusted to read the text as a C-family front end would; anything it cannot read is reported, never skipped",
    "one invocation; buffers are array<u32> (struct layouts: C07); no textures/atomics/barriers/subgroups; float builtins other than abs/min/max not executed",
    "theorems cover scalar operands; vector probes are tied syntactically (same pattern with vector type names) and executed, not proved",
]
RULE = ('executed operator probes: every (operator | integer builtin) x (i32, u32) x (scalar, vec3) one-operator program is compiled by the real back end under the default and one random option set and run on 10 boundary-heavy operand vectors (0, 1, 31, 32, 33, INT_MAX, INT_MIN, INT_MIN+1, -1, -2, 65535, 65536 + random); generated programs: the type-directed generator of C01 (helpers with value and pointer parameters, let/var/const, if/switch/loop/for/while/continuing/break-if, compound assignment, swizzles, constructors, integer builtins, conversions, private globals, structs/arrays) under random msl.Options (LangVersion 1.2-3.1, Index/Buffer bounds-check policies Unchecked/ReadZeroSkipWrite/Restrict, ForceLoopBounding, ZeroInitializeWorkgroupMemory); 16-word input/output buffers with boundary and random contents; 80% of the programs avoid the recorded defects of this back end, 20% enable one risky feature each; distinct by source text + options; non-trivial = has control flow or a helper')


def run(ck):
    ck.rule = RULE
    clike.run(ck, DIALECT, "Naga.Props.C04", glsl_ub_excluded=(DIALECT == "glsl"))
