"""C13 — IR-to-IR passes preserve program behaviour."""
from vlib import common
import os, re

LEVEL = "proof"
EXPLANATION = (
    "Lean theorems (Naga.Props.C13) about the renumbering scheme shared by CompactExpressions / CompactTypes / "
    "CompactConstants / CompactUnused (Naga.Model.Compact): for every arena of nodes whose operands refer backwards, every "
    "keep-mask closed under operands and every operator semantics, the compacted arena (dropped nodes removed, operands "
    "renumbered by the prefix count of kept nodes) evaluates every kept node to the value it had before "
    "(compact_preserves_eval), the renumbering is strictly increasing on kept handles (order preserved, hence operands still "
    "refer backwards) and compacting an all-kept arena is the identity (idempotence once dead nodes are gone). Tie and "
    "per-instance validation (K/S): every exported pass and the DXIL pre-emission pipeline (verif hook) is run on the real "
    "module of generated programs (75% with early returns only outside loops/switches, 25% with nested returns) and corpus "
    "shaders; the before/after modules are (a) executed by the Lean Core-IR interpreter on concrete buffers and compared, "
    "(b) checked by the strict IR validator written in Lean (backward handles, emit discipline, availability at use), "
    "(c) validated by naga's own validator, (d) run through the pass a second time and compared for idempotence. A "
    "difference in (a) is a concrete failing program + input, shrunk by the AST reducer.")
ASSUMPTIONS = [
    "Lean 4 kernel; axioms propext, Classical.choice, Quot.sound only",
    "the theorem covers the renumbering/removal scheme on an abstract arena; its instantiation to the real passes is by "
    "per-instance validation (interpreter + strict validator on real before/after modules), not by a model of compact.go",
    "inlining, sroa, mem2reg and dce are validated per instance only (no theorem); ExprPhi is not interpreted (such modules are "
    "counted as skipped), ExprAlias is",
    "Sem.IR is my reading of naga's IR semantics (Emit discipline, WGSL operator semantics); one invocation",
    "Go harness: generator, pass drivers, IR dumper",
]
N = {"quick": 120, "thorough": 4000}


def unq(s):
    return s.replace("\\n", "\n").replace('\\"', '"').replace("\\\\", "\\")


def match(ck, kind, pname, knob, cls, src):
    for k in ck.known:
        top = k.get("match", {})
        # a finding may list alternative shapes (e.g. one for generated programs, one per recorded witness)
        for mt in top.get("alternatives", [top]):
            if mt.get("kind") != kind:
                continue
            if mt.get("pass_regex") and not re.search(mt["pass_regex"], pname):
                continue
            if mt.get("knob_regex") and not re.search(mt["knob_regex"], knob):
                continue
            if mt.get("source") and mt["source"] != src:
                continue
            if re.search(mt.get("class_regex", ".*"), cls):
                return k["id"]
    return None


def run(ck):
    ck.rule = ("generated compute modules (helpers with value/pointer params, early returns, loops, switches, structs, arrays) x 11 "
               "passes/pipelines (CompactUnused, CompactExpressions, CompactTypes, CompactConstants, ReorderTypes, DeduplicateEmits, "
               "InlineUserFunctions all/some/then-compact, DXIL prepare, DXIL prepare+sroa/mem2reg/dce) x one random 16-word input; "
               "corpus shaders: structural part; distinct by (pass, source); non-trivial = module has a helper function or a loop")
    ck.trusted = ["Lean kernel", "axioms: propext, Classical.choice, Quot.sound", "L1 semantics (Sem.IR, Sem.IRValid)", "Go harness + dxil verif hook"]
    if not ck.prove(["Naga.Props.C13"]):
        ck.tie_broken("theorems", "Naga.Props.C13 no longer checks", str(ck.proof_failed))
    if ck.tier == "thorough":
        ck.leanchecker(["Naga.Props.C13"])
    if not ck.build_harness() or not ck.driver():
        return
    # K-tie of the compaction model: random arenas through the real ir.CompactExpressions vs Naga.Model.Compact
    out = ck.harness("c13arena", 3000 if ck.tier == "quick" else 200000)
    if out is not None and ck.run_driver(["c13"], os.path.join(out, "cases.txt"), os.path.join(out, "model.txt")):
        cases = common.read_lines(os.path.join(out, "cases.txt"))
        impl = common.read_lines(os.path.join(out, "impl.txt"))
        model = common.read_lines(os.path.join(out, "model.txt"))
        if not (len(cases) == len(impl) == len(model)):
            ck.tie_broken("c13arena-lines", "line count mismatch", "%d %d %d" % (len(cases), len(impl), len(model)))
        else:
            bad = 0
            for c, a, b in zip(cases, impl, model):
                ck.case(c, nontrivial=c.count("(") > 6)
                if a != b and not (a.startswith("panic") and b == "skip"):
                    bad += 1
                    if bad <= 2:
                        # the model is what compact_preserves_eval is about: a real pass that renumbers differently is no
                        # longer covered by the theorem; the arena itself is the input to replay
                        ck.violation({"kind": "compaction-differs-from-model", "arena": c, "implementation": a, "model": b,
                                      "how": "ir.CompactExpressions on this expression arena yields a different arena / different root "
                                             "handles than Naga.Model.Compact.compact (mark + prefix-count renumbering)"}, found_input=True)
                if a.startswith("panic"):
                    ck.violation({"kind": "compaction-panics", "arena": c, "implementation": a,
                                  "how": "ir.CompactExpressions panics on a well-formed arena"}, found_input=True)
            if cases:
                ck.samples.append({"arena": cases[0][:300], "implementation": impl[0][:300], "model": model[0][:300]})
    runs = [("c13", N.get(ck.tier, N["quick"]), ())]
    wdir = os.path.join(common.VERIF, "corpus", "C13")
    wit = sorted(os.path.join(wdir, f) for f in os.listdir(wdir)) if os.path.isdir(wdir) else []
    if wit:
        runs.insert(0, ("c13", 0, tuple(wit)))
    tally = {}
    reported = set()
    for ri, (cmd, n, extra) in enumerate(runs):
        out = ck.harness(cmd, n, extra_args=extra, timeout=7000, subdir="c13-%d" % ri)
        if out is None or not ck.run_driver(["c13"], os.path.join(out, "cases.txt"), os.path.join(out, "model.txt")):
            continue
        res = common.read_lines(os.path.join(out, "model.txt"))
        tags = common.read_lines(os.path.join(out, "tags.txt"))
        impl = common.read_lines(os.path.join(out, "impl.txt"))
        srcs = common.read_lines(os.path.join(out, "src.txt"))
        shrunk = {}
        sp = os.path.join(out, "shrunk.txt")
        if os.path.exists(sp):
            for l in common.read_lines(sp):
                m = re.match(r'"((?:[^"\\]|\\.)*)" "((?:[^"\\]|\\.)*)"', l)
                if m:
                    shrunk[" ".join(unq(m.group(1)).split(" ")[:2])] = (unq(m.group(1)), unq(m.group(2)))
        if not (len(res) == len(tags) == len(impl) == len(srcs)):
            ck.tie_broken("c13-lines", "line count mismatch", "%d %d %d %d" % (len(res), len(tags), len(impl), len(srcs)))
            continue
        for r, t, st, s in zip(res, tags, impl, srcs):
            pname, origin, knob = (t.split(" ") + ["", ""])[:3]
            ck.case(pname + s, nontrivial=("fn helper" in s or "loop" in s or "for " in s or "while" in s))
            wf, _, sem = r.partition(" | ")
            if r == "skip":
                wf, sem = "", "skip"
            semhead = sem.split(" ")[0]
            tl = tally.setdefault(pname, {})
            for k in ("status:" + st.split(":")[0], "wf:" + ("ok" if wf in ("wf", "") else ("before" if wf.startswith("before-") else "NOT-WF")), "sem:" + semhead):
                tl[k] = tl.get(k, 0) + 1
            viols = []
            if st != "ok":
                viols.append(("pass-status", re.sub(r"[0-9]+", "N", st)[:160],
                              "the pass fails, yields a module naga's own validator rejects, or is not idempotent (second run changes the module)"))
            if wf.startswith("NOT-WF"):
                viols.append(("not-well-formed", wf[len("NOT-WF "):][:160],
                              "the module after the pass violates the IR contract (strict validator, Naga.Sem.IRValid) although the module before it satisfied it"))
            if semhead == "DISAGREE":
                viols.append(("behaviour-changed", "values" if "after=[[" in sem else "error",
                              "executing the module before and after the pass (Lean Core-IR interpreter) on the same input gives different results"))
            for kind, cls, how in viols:
                fid = match(ck, kind, pname, knob, cls, origin)
                # one report per (kind, pass, class) for generated programs; witnesses are reported individually
                key = (kind, pname, cls, knob, origin if origin.startswith("witness:") else "")
                if fid is None and key in reported:
                    continue
                if fid is None:
                    reported.add(key)
                ck.violation({"kind": kind, "finding": fid, "pass": pname, "class": cls, "origin": origin, "knob": knob, "result": r[:1500],
                              "status": st, "wgsl": unq(s[1:-1]), "shrunk": shrunk.get(pname + " " + knob), "how": how}, found_input=True)
            if len(ck.samples) < 3 and semhead == "agree" and origin == "gen":
                ck.samples.append({"pass": pname, "wgsl": unq(s[1:-1])[:500], "result": r[:200]})
    ck.extra["results_per_pass"] = tally
