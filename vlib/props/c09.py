"""C09 — lowering yields a well-formed, fully typed, deduplicated IR module."""
from vlib import common
import os, re

LEVEL = "proof"
EXPLANATION = (
    "Lean theorem (Naga.Props.C09 emit_ranges_exact) about the model of the lowerer's emit-range discipline "
    "(Naga.Model.Emitter: emitStart / addExpression with auto-interrupt for pre-emit kinds / interruptEmitter / emitFinish): for "
    "every sequence of emitter operations, of any length, in which needs-emission expressions are only created while the emitter "
    "runs, an expression is covered by an emit range iff it needs emission, ranges are non-empty, ascending and pairwise disjoint "
    "(exactly-once coverage; literals, constants, variables, arguments, results never covered) and never reach past the arena; "
    "with a kernel-checked witness that the hypothesis is necessary; "
    "registry_dedup / getOrCreate_handle / _prefix / _idem: the structural model of internal/registry.TypeRegistry.GetOrCreate "
    "keeps the arena free of duplicates for every request sequence, returns a handle denoting the requested type, never changes "
    "existing handles, and is idempotent; the dedup key itself is modelled character for character (Naga.Model.RegKey.keyOf) and "
    "proved injective on identifier-named requests by a decoder round trip (Props/RegKey: decode_keyOf, keyOf_injective), so that "
    "looking a request up by key is looking it up by structure (getOrCreateK_eq_getOrCreate); tied to the real registry (verif "
    "hooks) by request sequences over every TypeInner kind with adversarial digit-resplit twins: handles, arena size and every "
    "key string must equal the model's. The IR contract itself is decided per instance by an executable strict validator written in Lean (Naga.Sem.IRValid + IRTyping, modelled on upstream naga's valid:: rules and "
    "independent of naga-go's validator): handles in range and backwards (types, constants, globals, locals, functions, "
    "expressions, global expressions), emit ranges inside the arena / non-overlapping / free of pre-emit kinds, every expression "
    "available (emitted earlier in an enclosing block, or constant, or call result after its call) at each use, break/continue/"
    "return placement, no abstract type or literal left, structurally equal anonymous types unique, every function with a result "
    "returning on all paths, recorded ExpressionTypes equal to types inferred from the operands (Core kinds, shape level), stores / "
    "calls / atomic statements / workgroupUniformLoad type-correct against the recorded types. It runs "
    "on the module the real front end returns for generated compute programs, generated multi-entry-point modules and corpus "
    "shaders; naga's own validator must accept the module too. A module that fails a rule is the concrete failing input.")
ASSUMPTIONS = [
    "Lean 4 kernel; axioms propext, Classical.choice, Quot.sound only",
    "the emitter theorem is about the model of the mechanism; real modules are validated per instance (translation-validation "
    "level for the whole lowerer)",
    "IRValid/IRTyping are my reading of the IR contract; type inference covers literals, constants, compose/splat/swizzle, unary, "
    "binary (not matrix products), select, relational, as, loads of variables, vector component access, call results; bindings of "
    "entry points are judged under C17, store/call type-correctness only through naga's own validator",
    "expression kinds outside the Core mirror (images, atomics, ray queries, subgroup ops) are checked for handle ranges and emit "
    "placement only",
    "Go harness: generators, IR dumper (module, type names, ExpressionTypes)",
]
N = {"quick": 600, "thorough": 30000}


def unq(s):
    return s.replace("\\n", "\n").replace('\\"', '"').replace("\\\\", "\\")


def run(ck):
    ck.rule = ("generated compute programs (helpers, pointer params, structs, arrays, loops, switches), generated multi-entry-point "
               "modules (1 per 3 programs), corpus shaders (40 per run; all in the thorough tier), recorded witnesses; distinct by "
               "source; non-trivial = the module has a helper function, a loop or more than one entry point")
    ck.trusted = ["Lean kernel", "axioms: propext, Classical.choice, Quot.sound", "IR contract as transcribed in Sem.IRValid / Sem.IRTyping", "Go harness"]
    if not ck.prove(["Naga.Props.C09", "Naga.Props.RegKey", "Naga.Props.GlobalInit"]):
        ck.tie_broken("theorems", "Naga.Props.C09 / Naga.Props.RegKey no longer check", str(ck.proof_failed))
    if ck.tier == "thorough":
        ck.leanchecker(["Naga.Props.C09", "Naga.Props.RegKey", "Naga.Props.GlobalInit"])
    if not ck.build_harness() or not ck.driver():
        return
    # K-tie of the registry model: request sequences through the real TypeRegistry (verif hook)
    out = ck.harness("c09reg", 6000 if ck.tier == "quick" else 100000)
    if out is not None and ck.run_driver(["c09"], os.path.join(out, "cases.txt"), os.path.join(out, "model.txt")):
        cases = common.read_lines(os.path.join(out, "cases.txt"))
        impl = common.read_lines(os.path.join(out, "impl.txt"))
        model = common.read_lines(os.path.join(out, "model.txt"))
        if not (len(cases) == len(impl) == len(model)):
            ck.tie_broken("c09reg-lines", "line count mismatch", "%d %d %d" % (len(cases), len(impl), len(model)))
        else:
            bad = 0
            for c, a, b in zip(cases, impl, model):
                ck.case(c, nontrivial=True)
                if a != b:
                    bad += 1
                    if bad <= 2:
                        ck.violation({"kind": "registry-differs-from-model", "requests": c, "implementation": a, "model": b,
                                      "how": "TypeRegistry.GetOrCreate on this request sequence returns different handles than the "
                                             "structural model (a key collision merges distinct types, or equal types are not merged), or "
                                             "the dedup key it computes is not the key proved injective (Registry.keyOf): "
                                             "two types the module needs are confused / duplicated"}, found_input=True)
            if cases:
                ck.samples.append({"requests": cases[0][:300], "implementation": impl[0], "model": model[0]})
    wdir = os.path.join(common.VERIF, "corpus", "C09")
    wit = sorted(os.path.join(wdir, f) for f in os.listdir(wdir)) if os.path.isdir(wdir) else []
    out = ck.harness("c09", N.get(ck.tier, N["quick"]), extra_args=tuple(wit), timeout=7000)
    if out is None or not ck.run_driver(["c09"], os.path.join(out, "cases.txt"), os.path.join(out, "model.txt")):
        return
    tags = common.read_lines(os.path.join(out, "tags.txt"))
    impl = common.read_lines(os.path.join(out, "impl.txt"))
    model = common.read_lines(os.path.join(out, "model.txt"))
    srcs = common.read_lines(os.path.join(out, "src.txt"))
    if not (len(tags) == len(impl) == len(model) == len(srcs)):
        ck.tie_broken("c09-lines", "line count mismatch", "%d %d %d %d" % (len(tags), len(impl), len(model), len(srcs)))
        return
    tally = {}
    reported = set()
    for t, i, m, s in zip(tags, impl, model, srcs):
        origin = t.split(":")[0]
        ck.case(s, nontrivial=("fn helper" in s or "loop" in s or "for " in s or s.count("@compute") + s.count("@vertex") + s.count("@fragment") > 1))
        tl = tally.setdefault(origin, {"wf": 0, "not-wf": 0, "naga-validator-rejects": 0})
        if i != "ok":
            tl["naga-validator-rejects"] += 1
            key = ("naga", re.sub(r"[0-9]+", "N", i)[:100])
            if key not in reported:
                reported.add(key)
                ck.violation({"kind": "own-validator-rejects", "origin": t, "diagnostic": i[:600], "wgsl": unq(s[1:-1]),
                              "how": "naga's own validator rejects the module its front end returned"}, found_input=True)
        if m == "wf":
            tl["wf"] += 1
            if len(ck.samples) < 2 and origin == "gen":
                ck.samples.append({"wgsl": unq(s[1:-1])[:500], "verdict": m})
            continue
        tl["not-wf"] += 1
        # one violation per diagnostic class (numbers removed, function name removed)
        diags = m[len("NOT-WF "):].split(" ;; ")
        for d in diags:
            if d.startswith("("):
                continue
            cls = re.sub(r"[0-9]+", "N", re.sub(r"^fn [^:]*: ", "", d))[:140]
            fid = None
            for k in ck.known:
                if re.search(k.get("match", {}).get("class_regex", "$^"), cls):
                    fid = k["id"]
            key = ("wf", cls)
            if fid is None and key in reported:
                continue
            if fid is None:      # a listed finding never hides a later unlisted violation of the same class
                reported.add(key)
            ck.violation({"kind": "ir-contract-violated", "finding": fid, "class": cls, "origin": t, "diagnostics": m[:1500],
                          "wgsl": unq(s[1:-1]),
                          "how": "the module returned by parse+lower violates the IR contract (strict validator, Naga.Sem.IRValid / IRTyping)"},
                         found_input=True)
    ck.extra["results_per_origin"] = tally
