"""C12 — output depends only on (source, options): deterministic, history- and race-free."""
from vlib import common
import os, re, subprocess, sys

LEVEL = "other"
LEVEL_TEXT = (
    "partial: Lean theorem (Naga.Props.C12 history_independent): for an abstract reusable back end — named fields, a reset that "
    "reinitialises the `cleared` fields, an arbitrary compile step that never writes the remaining (configuration) fields — the "
    "output for a source after EVERY history of earlier compilations, of any length, equals the output of a fresh back end; with a "
    "kernel-checked witness that the frame hypothesis is necessary. Regenerated tie (R, Naga.Tie.C12): on every run a go/ast "
    "extractor lists the fields of spirv codegen.Backend and ModuleBuilder, the fields (re)initialised by Backend.Reset / the "
    "Compile prologue / ModuleBuilder.Reset, and the fields assigned by any other method; the kernel re-checks that every field is "
    "cleared or is configuration, that configuration is never assigned after construction, and that the builder resets all its "
    "fields. What a theorem cannot exhibit — the Go scheduler, map iteration order, hidden package-level state, aliasing between "
    "the caller's module and back-end state — is exercised, not proved: random histories on one reused Backend vs fresh back ends "
    "(bytes compared), every back end (SPIR-V, HLSL, MSL, GLSL, DXIL) in random order on one shared module vs alone on a fresh "
    "module with deep equality of the module against a freshly lowered twin after each, repeated compilation in one process and "
    "across two processes (output hashes), concurrent compilations on a shared module and on separate modules, and the same "
    "concurrent workload under the Go race detector.")
EXPLANATION = LEVEL_TEXT
ASSUMPTIONS = [
    "Lean 4 kernel; axioms propext, Classical.choice, Quot.sound only",
    "the abstract theorem is instantiated for the SPIR-V back end only through the regenerated field/reset facts (go/ast, "
    "statement-level assignments and clear() calls; a field mutated through an alias or inside a helper taking a pointer to it "
    "is not seen)",
    "scheduler interleavings are sampled (goroutines + race detector), not enumerated: the property is claimed as partial",
    "HLSL/MSL/GLSL/DXIL have no reusable instance; their history independence is only exercised (order / repeat / parallel)",
    "Go harness: pool of corpus + generated modules, byte comparison, reflect.DeepEqual on modules",
]
TECHNIQUE = "Lean 4 theorem over an abstract state machine + regenerated go/ast facts re-checked by the kernel + history/order/concurrency differential runs (race detector)"
N = {"quick": 40, "thorough": 1500}


def unq(s):
    return s.replace("\\n", "\n").replace('\\"', '"').replace("\\\\", "\\")


def read_violations(out):
    vp = os.path.join(out, "violations.txt")
    if not os.path.exists(vp):
        return []
    vs = common.read_lines(vp)
    srcs = common.read_lines(os.path.join(out, "violation-src.txt"))
    return list(zip(vs, srcs))


def run(ck):
    ck.rule = ("pool = every corpus shader that lowers + generated compute modules + generated multi-entry-point modules; histories: "
               "2-5 modules on one reused spirv.Backend (random version 1.0-1.6, Debug); orders: random permutation of 5 back ends on "
               "one shared module; repeat x2; parallel: 4 back ends on a shared module + 8 goroutines on separate modules; "
               "one case = one compilation compared with its reference; non-trivial = every case (real modules)")
    ck.trusted = ["Lean kernel", "axioms: propext, Classical.choice, Quot.sound", "go/ast fact extractor (harness)", "Go race detector", "Go harness"]
    if not ck.build_harness():
        return
    # R: regenerate the facts and re-prove
    fd = ck.harness("c12facts", 0)
    if fd is None:
        return
    subprocess.run([sys.executable, os.path.join(common.VERIF, "tools", "gen_c12facts.py"), os.path.join(fd, "facts.txt"),
                    os.path.join(common.LEAN, "Naga", "Gen", "C12Facts.lean")], check=True)
    proved = ck.prove(["Naga.Tie.C12", "Naga.Props.C12"])
    if ck.tier == "thorough" and proved:
        ck.leanchecker(["Naga.Tie.C12", "Naga.Props.C12"])
    n = N.get(ck.tier, N["quick"])
    found = 0
    reported = set()

    def take(out, label):
        nonlocal found
        if out is None:
            return
        st = ck.stats.get(label, {})
        for k, v in st.items():
            if k.endswith("-compilations"):
                for j in range(v):
                    ck.case("%s-%s-%d" % (label, k, j))
        for v, s in read_violations(out):
            kind = v.split(" | ")[0]
            what = v.split(" | ")[1] if " | " in v else v
            names = v.split(" | ")[2].strip() if v.count(" | ") >= 2 else ""
            fid = None
            for k in ck.known:
                mt = k.get("match", {})
                if mt.get("kind") == kind and re.search(mt.get("what_regex", ".*"), what) and re.search(mt.get("source_regex", ".*"), names):
                    fid = k["id"]
            key = (kind, re.sub(r"[0-9]+", "N", what)[:80])
            if fid is None:
                found += 1
                if key in reported:
                    continue
            if fid is None:      # a listed finding never hides a later unlisted violation of the same class
                reported.add(key)
            ck.violation({"kind": kind, "finding": fid, "what": what, "modules": names, "last_module_wgsl": unq(s[1:-1])[:6000],
                          "how": "outputs compared byte for byte with the reference compilation (fresh back end / back end run alone / "
                                 "first run), modules compared with reflect.DeepEqual against a freshly lowered twin"}, found_input=True)

    out1 = ck.harness("c12", n, timeout=7000, subdir="c12")
    take(out1, "c12")
    # second process: same seed, outputs must hash identically
    out2 = ck.harness("c12", n, timeout=7000, subdir="c12-second-process")
    if out1 and out2:
        h1 = common.read_lines(os.path.join(out1, "hashes.txt")) if os.path.exists(os.path.join(out1, "hashes.txt")) else []
        h2 = common.read_lines(os.path.join(out2, "hashes.txt")) if os.path.exists(os.path.join(out2, "hashes.txt")) else []
        ck.extra["cross_process_outputs_compared"] = len(h1)
        for a, b in zip(h1, h2):
            ck.case("xproc" + a)
            if a != b:
                found += 1
                ck.violation({"kind": "process-dependent-output", "first_process": a, "second_process": b,
                              "how": "the same module compiled by the same back end in two separate processes gives different bytes"},
                             found_input=True)
                break
    # race detector on the concurrent part (small budget)
    racebin = os.path.join(ck.dir, "vh-race")
    with common.Lock("gobuild"):
        rc, log = common.run(["go", "build", "-race", "-tags", "verif", "-o", racebin, "."], cwd=common.HARNESS, timeout=1800)
    if rc != 0:
        ck.notes.append("race-detector build not available: " + log[-300:])
        ck.extra["race_detector"] = "unavailable"
    else:
        outr = os.path.join(ck.dir, "c12-race")
        os.makedirs(outr, exist_ok=True)
        rc, log = common.run([racebin, "c12", "-seed", str(ck.seed), "-tier", ck.tier, "-n", str(8 if ck.tier == "quick" else 120), "-out", outr],
                             cwd=ck.dir, timeout=7000)
        races = log.count("WARNING: DATA RACE")
        ck.extra["race_detector"] = {"data_races": races, "exit": rc}
        if races or rc != 0:
            found += 1
            ck.violation({"kind": "data-race", "detail": log[-6000:],
                          "how": "Go race detector on concurrent compilations (shared module with 4 back ends; 8 goroutines on separate modules)"},
                         found_input=True)
        try:
            os.remove(racebin)
        except OSError:
            pass
    if not proved:
        ck.violation({"kind": "tie-broken", "what": "Naga.Tie.C12 / Naga.Props.C12",
                      "why": "a field of the SPIR-V Backend/ModuleBuilder is neither reinitialised at the start of a compilation nor "
                             "write-once configuration (or the theorem no longer checks); see the regenerated lean/Naga/Gen/C12Facts.lean",
                      "detail": str(ck.proof_failed)[:3000],
                      "search": "%d history/order/parallel violation(s) found by the differential runs in this check" % found},
                     found_input=(found > 0))
