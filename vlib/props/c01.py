"""C01 — SPIR-V output computes what the WGSL program means."""
from vlib import common
import os, re, subprocess, sys

LEVEL = "proof"
EXPLANATION = (
    "Lean theorems (Naga.Props.C01), all operand values: the instruction the back end selects for + - * & | ^ and all "
    "integer/bool comparisons computes the WGSL operation and is defined; naga_div / naga_mod (i32/u32): the wrapper body "
    "extracted from the real binary computes WGSL division/remainder for all 2^64 operand pairs with no SPIR-V undefined "
    "behaviour (pattern_* + wrapped_*_sound); shifts and float != only _partial with witnesses (unmasked shifts, "
    "OpFOrdNotEqual). Regenerated tie (R, Naga.Tie.C01): on every run ~200 one-operator programs (18 operators x 4 kinds x "
    "scalar/vec3 x versions x debug) and the wrapper functions are compiled by the real back end, the opcodes implementing "
    "each operator and the wrapper bodies are extracted and the kernel re-checks them against SpvEmit.selBin / "
    "wrappedPattern. Program level (K/S): generated programs are executed by three Lean interpreters — the WGSL reference "
    "evaluator on the generator's own AST, the Core-IR interpreter on naga's lowered IR, and the SPIR-V interpreter on the "
    "real binary (random version 1.0-1.6, debug, ForceLoopBounding) — on boundary/random buffer contents; any difference or "
    "SPIR-V undefined behaviour is a concrete failing input, shrunk by the AST reducer. Statement-level simulation "
    "(emitStmt_sim) is not proved; control flow is covered by execution only.")
ASSUMPTIONS = [
    "Lean 4 kernel; axioms propext, Classical.choice, Quot.sound only",
    "Sem.Ops / Sem.Wgsl / Sem.IR / Sem.Spv are my reading of the WGSL and SPIR-V specifications (L1, trusted); floats through Lean Float32 (+ - * / and comparisons only)",
    "one invocation, no textures/atomics/barriers/subgroups; float builtins executed: abs/min/max and the exact roundings floor/ceil/trunc/round (Lean Float32 floorf/ceilf/roundf, trusted; ties per language specification); the transcendental ones are not",
    "Go harness: generator, probes, opcode extraction by multiset difference against a baseline program",
]
N = {"quick": (400, 600), "thorough": (20000, 40000)}


def unq(s):
    return s.replace("\\n", "\n").replace('\\"', '"').replace("\\\\", "\\")


def shrunk_map(path):
    out = {}
    if os.path.exists(path):
        for l in common.read_lines(path):
            m = re.match(r'"((?:[^"\\]|\\.)*)" "((?:[^"\\]|\\.)*)"', l)
            if m:
                out.setdefault(unq(m.group(1)).split(" | ")[0], (unq(m.group(1)), unq(m.group(2))))
    return out


def err_class(r):
    if not r.startswith("DISAGREE"):
        return "ok"
    i = r.find("-error[")
    if i >= 0:
        if "(ALSO DIFFERENT)" in r and re.search(r"uninitialised (function|private)(, (function|private))* variable", r):
            return "values"       # the undefined read is a recorded finding of its own; the outputs differ besides
        r = re.sub(r"; with zero there: spv\[\[.*?\]\]", "", r[i:])
        return re.sub(r"[0-9]", "N", r)
    return "values"


def run(ck):
    ck.rule = ("type-directed generator: compute modules with helpers (value and ptr params), let/var/const, "
               "if/switch/loop/for/while/continuing/break-if/break/continue/return, compound assignment, swizzles, vector "
               "constructors, integer builtins, conversions, private globals, structs/arrays; 16-word input and output buffers "
               "with boundary and random contents; 80% of programs avoid the recorded SPIR-V defects, 20% enable one risky "
               "feature each; distinct by source text; non-trivial = at least one control-flow statement or helper")
    ck.trusted = ["Lean kernel", "axioms: propext, Classical.choice, Quot.sound", "L1 semantics (Sem.*)", "Go harness"]
    if not ck.build_harness():
        return
    # R: regenerate the probe tables and re-prove
    pd = ck.harness("c01probe", 0)
    if pd is None or ck.harness("c01wrappers", 0, subdir="c01probe") is None:
        return
    subprocess.run([sys.executable, os.path.join(common.VERIF, "tools", "gen_spvtables.py"), pd], check=True)
    proved = ck.prove(["Naga.Tie.C01", "Naga.Props.C01", "Naga.Props.Pack4", "Naga.Props.BitField"])
    if not ck.driver():
        return
    nsem, nspv = N.get(ck.tier, N["quick"])
    found_disagreement = False
    # K1: WGSL reference semantics vs naga's lowered IR
    out = ck.harness("sem", nsem, timeout=7000)
    if out is not None and ck.run_driver(["sem"], os.path.join(out, "cases.txt"), os.path.join(out, "model.txt")):
        res = common.read_lines(os.path.join(out, "model.txt"))
        srcs = common.read_lines(os.path.join(out, "src.txt"))
        sh = shrunk_map(os.path.join(out, "shrunk.txt"))
        skipped = 0
        for i, (r, s) in enumerate(zip(res, srcs)):
            ck.case("sem" + s, nontrivial=any(k in s for k in ("if ", "loop", "for ", "while", "switch", "helper")))
            if r.startswith("skip"):
                skipped += 1
            elif not r.startswith("agree"):
                found_disagreement = True
                ck.violation({"kind": "lowering-changes-meaning", "result": r[:2000], "wgsl": unq(s[1:-1]),
                              "shrunk": sh.get(r[:40]),
                              "how": "WGSL reference evaluation of the program differs from the evaluation of naga's lowered IR"},
                             found_input=True)
            if i == 0:
                ck.samples.append({"wgsl": unq(s[1:-1])[:1200], "result": r[:300]})
        ck.extra["sem_skipped_outside_core"] = skipped
    # K2: WGSL reference semantics vs the SPIR-V interpreter on the real binary
    out = ck.harness("spvsem", nspv, timeout=7000)
    if out is not None and ck.run_driver(["sem"], os.path.join(out, "cases.txt"), os.path.join(out, "model.txt")):
        res = common.read_lines(os.path.join(out, "model.txt"))
        srcs = common.read_lines(os.path.join(out, "src.txt"))
        tags = common.read_lines(os.path.join(out, "tags.txt"))
        sh = shrunk_map(os.path.join(out, "shrunk.txt"))
        skipped = 0
        per_knob = {}
        reported = set()
        for i, (r, s, t) in enumerate(zip(res, srcs, tags)):
            knob = t.split(" ")[0]
            ck.case("spv" + s + t, nontrivial=any(k in s for k in ("if ", "loop", "for ", "while", "switch", "helper")))
            per_knob.setdefault(knob, [0, 0])[0] += 1
            if r.startswith("skip"):
                skipped += 1
                continue
            if r.startswith("agree"):
                continue
            per_knob[knob][1] += 1
            cls = err_class(r)
            fid = None
            for k in ck.known:
                mt = k.get("match", {})
                if mt.get("knob") and mt["knob"] == knob and re.search(mt.get("error_class_regex", "$^"), cls.replace("-error[", "")):
                    fid = k["id"]
                if mt.get("any_knob") and re.search(mt.get("error_class_regex", "$^"), cls.replace("-error[", "")):
                    fid = k["id"]
                # decided on the case: a shape flag computed on the program's AST by the harness + the way it fails
                if mt.get("shape") and (" " + mt["shape"]) in t and re.search(mt.get("error_class_regex", "$^"), cls.replace("-error[", "")) \
                        and re.search(mt.get("result_regex", ""), r):
                    fid = k["id"]
                # decided on the case: the source has the shape the finding names + the way it fails
                if mt.get("src_regex") and re.search(mt["src_regex"], unq(s[1:-1])) and re.search(mt.get("error_class_regex", "$^"), cls.replace("-error[", "")) \
                        and re.search(mt.get("result_regex", ""), r):
                    fid = k["id"]
            key = (knob, cls)
            if fid is None:
                found_disagreement = True
            if fid is None and key in reported:
                continue
            if fid is None:      # a listed finding never hides a later unlisted violation of the same class
                reported.add(key)
            shk = sh.get("%s %s" % (knob, cls))
            ck.violation({"kind": "spirv-changes-meaning", "finding": fid, "options": t, "result": r[:2000],
                          "wgsl": unq(s[1:-1]), "shrunk": shk,
                          "how": "running the emitted SPIR-V (Lean interpreter, real binary) differs from the WGSL reference "
                                 "evaluation, or hits SPIR-V undefined behaviour"}, found_input=True)
        ck.extra["spv_skipped_outside_core"] = skipped
        ck.extra["spv_programs_and_disagreements_per_knob"] = per_knob
        if res:
            ck.samples.append({"options": tags[0], "wgsl": unq(srcs[0][1:-1])[:1200], "result": res[0][:300]})
    # recorded witnesses of the open findings: must still fail in the recorded way
    out = ck.harness("c01witness", 0)
    if out is not None and ck.run_driver(["sem"], os.path.join(out, "cases.txt"), os.path.join(out, "model.txt")):
        res = common.read_lines(os.path.join(out, "model.txt"))
        tags = common.read_lines(os.path.join(out, "tags.txt"))
        srcs = common.read_lines(os.path.join(out, "src.txt"))
        for r, t, s in zip(res, tags, srcs):
            knob = t.split(" ")[0]
            cls = err_class(r).replace("-error[", "")
            fid = None
            for k in ck.known:
                mt = k.get("match", {})
                if mt.get("knob") == knob:
                    fid = k["id"]
                    if r.startswith("DISAGREE") and re.search(mt.get("error_class_regex", "$^"), cls):
                        ck.known_hits[fid] = ck.known_hits.get(fid, 0) + 1
                    elif r.startswith("agree"):
                        ck.notes.append("witness of %s now agrees with WGSL (stale entry?)" % fid)
                    else:
                        ck.violation({"kind": "spirv-changes-meaning", "options": t, "result": r[:2000], "wgsl": unq(s[1:-1]),
                                      "how": "the recorded witness of %s fails in a new way" % fid}, found_input=True)
            ck.case("witness" + s, nontrivial=True)
    if not proved:
        ck.violation({"kind": "tie-broken", "what": "Naga.Tie.C01 / Naga.Props.C01",
                      "why": "the operator table or wrapper body probed from the real back end no longer matches the model "
                             "(or a theorem no longer checks)", "detail": str(ck.proof_failed)[:3000]},
                     found_input=False)
