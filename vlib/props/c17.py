"""C17 — resource bindings and stage interfaces survive translation exactly."""
from vlib import common
import os, re

LEVEL = "proof"
EXPLANATION = (
    "Lean theorems (Naga.Props.C17) about the model of binding/interface translation (Naga.Model.Bind): reach_exact — for every "
    "module, of any size and call depth, the set of globals attributed to an entry point is exactly the set it uses directly or "
    "through any chain of helper calls (soundness and completeness against an inductive specification); binding-map lookups "
    "return the caller's target when present and the documented fall-back otherwise (hlslTarget_*). Tie (K): generated modules "
    "with 1-4 entry points of mixed stages (compute/vertex/fragment) sharing storage/uniform/private/workgroup globals through "
    "helper call chains, with random @group/@binding, workgroup sizes and stage IO, are compiled by every back end under random "
    "SPIR-V versions/options and random binding maps (present/absent entries, with and without FakeMissingBindings); from the real "
    "SPIR-V binary the Lean decoder extracts execution models, LocalSize, DescriptorSet/Binding/Location/BuiltIn decorations, storage "
    "classes and every OpEntryPoint interface list; from the HLSL/MSL/GLSL text the harness extracts register(...)/[[buffer(n)]]/"
    "layout(binding=n) annotations per resource (MSL, GLSL: per entry point) and the reflected entry-point names; all are compared "
    "with the model's expectation, item for item. A difference is a concrete module + option set. Stage-interface shapes (S, c17iface): vertex / fragment entry points with 1-4 arguments — bare @builtin and @location arguments and struct arguments whose members mix locations and builtins, in any order — and bare or struct results; for HLSL, MSL and GLSL the emitted text must be readable by the independent parser (no nameless parameter, no empty member reference) and the user locations on the input side and on the output side, read from the text, must be exactly the WGSL's.")
ASSUMPTIONS = [
    "Lean 4 kernel; axioms propext, Classical.choice, Quot.sound only",
    "Naga.Model.Bind is my reading of the WGSL->SPIR-V/HLSL/MSL/GLSL binding conventions (Vulkan: DescriptorSet=@group, "
    "Binding=@binding; interface lists per SPIR-V 1.4 rule); helpers call only earlier helpers (WGSL forbids recursion)",
    "stage IO shapes are those of the generator (vertex_index/position builtins, locations, interpolation attributes); textures, "
    "samplers, binding arrays and push constants are not generated",
    "text annotations are extracted by regular expressions in the Go harness (trusted)",
]
N = {"quick": 250, "thorough": 20000}


def unq(s):
    return s.replace("\\n", "\n").replace('\\"', '"').replace("\\\\", "\\")


def iface_sweep(ck, names_only=False):
    """Stage interfaces in every argument shape (bare @builtin / @location arguments and struct arguments in any order):
    the text of every text back end must be readable and carry exactly the WGSL's user locations on each side."""
    out = ck.harness("c17iface", {"quick": 300, "thorough": 20000}.get(ck.tier, 300), timeout=3000, subdir="c17iface")
    if out is None:
        return
    st = ck.stats.get("c17iface", {})
    for k in ("texts:hlsl", "texts:msl", "texts:glsl"):
        for _ in range(st.get(k, 0)):
            ck.evaluations += 1
    ck.extra["stage_interface_sweep"] = {k: v for k, v in st.items()}
    un = lambda x: x.replace("\\n", "\n").replace('\\"', '"').replace("\\\\", "\\")
    seen = set()
    vf = os.path.join(out, "violations.txt")
    if os.path.exists(vf) and not names_only:   # C16 runs this sweep for the redeclaration rule only
        for l in common.read_lines(vf):
            m = re.match(r'"((?:[^"\\]|\\.)*)" "((?:[^"\\]|\\.)*)" "((?:[^"\\]|\\.)*)"', l)
            what = un(m.group(1)) if m else l[:300]
            cls = re.sub(r"[0-9]+", "N", what)[:80]
            if cls in seen:
                continue
            seen.add(cls)
            fid = None
            for kf in ck.known:
                wr = kf.get("match", {}).get("what_regex")
                if wr and re.search(wr, what):
                    fid = kf["id"]
            ck.violation({"kind": "stage-interface-not-preserved", "finding": fid, "what": what, "wgsl": un(m.group(2)) if m else None,
                          "emitted": un(m.group(3))[:5000] if m else None,
                          "how": "the emitted text is unreadable (nameless parameter, empty member reference …) or the user locations "
                                 "on the input / output side of the entry point differ from the WGSL declaration"}, found_input=True)
    # names: no text may declare one name twice in one scope (Sem/CLike.redeclaration, the rule the program sweeps use)
    rc = os.path.join(out, "redecl-cases.txt")
    if os.path.exists(rc) and ck.driver() and ck.run_driver(["csem"], rc, os.path.join(out, "redecl-model.txt")):
        res = common.read_lines(os.path.join(out, "redecl-model.txt"))
        srcs = common.read_lines(os.path.join(out, "redecl-src.txt"))
        cases = common.read_lines(rc)
        tally = {"ok": 0, "redeclaration": 0}
        for r, sline, cs in zip(res, srcs, cases):
            ck.case("redecl" + cs[:3000], nontrivial=True)
            if r == "ok":
                tally["ok"] += 1
                continue
            tally["redeclaration"] += 1
            dialect = cs.split(" ")[1]
            cls = dialect + ": " + re.sub(r"(type|global|function|local|struct|name) \S+", r"\1 X", re.sub(r"[0-9]+", "N", r))[:90]
            if cls in seen:
                continue
            seen.add(cls)
            m = re.match(r'"((?:[^"\\]|\\.)*)" "((?:[^"\\]|\\.)*)"', sline)
            fid = None
            for kf in ck.known:
                wr = kf.get("match", {}).get("what_regex")
                if wr and re.search(wr, dialect + ": " + r):
                    fid = kf["id"]
            ck.violation({"kind": "emitted-text-redeclares-a-name", "finding": fid, "what": dialect + ": " + r, "wgsl": un(m.group(1)) if m else None,
                          "emitted": un(m.group(2))[:6000] if m else None,
                          "how": "the emitted text declares one name twice in one scope (two members of a struct, two types, two locals of a "
                                 "block, …): the target language rejects it — a user identifier clashed with a generated name or with another one"},
                         found_input=True)
        ck.extra["stage_interface_redeclarations"] = tally
    bf = os.path.join(out, "backend-errors.txt")
    if os.path.exists(bf) and not names_only:
        for l in common.read_lines(bf)[:2]:
            ck.violation({"kind": "stage-interface-backend-error", "what": l[:1500],
                          "how": "a text back end refused a valid vertex / fragment entry point"}, found_input=True)


def run(ck):
    ck.rule = ("modules with 2-6 globals (storage rw/ro, uniform, private, workgroup; random group 0-3 / binding 0-7), 0-3 helpers "
               "(call DAG), 1-4 entry points (compute/vertex/fragment) x SPIR-V 1.0-1.6 x Debug/ForcePointSize/AdjustCoordinateSpace x "
               "binding maps with each resource present with probability 0.7 x FakeMissingBindings on/off; one case per (module, back "
               "end[, entry point]); non-trivial = at least two entry points or a helper")
    ck.trusted = ["Lean kernel", "axioms: propext, Classical.choice, Quot.sound", "binding conventions (Naga.Model.Bind)", "Go harness (generator, regex extraction)"]
    if not ck.prove(["Naga.Props.C17"]):
        ck.tie_broken("theorems", "Naga.Props.C17 no longer checks", str(ck.proof_failed))
    if ck.tier == "thorough":
        ck.leanchecker(["Naga.Props.C17"])
    if not ck.build_harness() or not ck.driver():
        return
    iface_sweep(ck)
    out = ck.harness("c17", N.get(ck.tier, N["quick"]), timeout=7000)
    if out is None or not ck.run_driver(["c17"], os.path.join(out, "cases.txt"), os.path.join(out, "model.txt")):
        return
    tags = common.read_lines(os.path.join(out, "tags.txt"))
    impl = common.read_lines(os.path.join(out, "impl.txt"))
    model = common.read_lines(os.path.join(out, "model.txt"))
    srcs = common.read_lines(os.path.join(out, "src.txt"))
    cases = common.read_lines(os.path.join(out, "cases.txt"))
    if not (len(tags) == len(impl) == len(model) == len(srcs)):
        ck.tie_broken("c17-lines", "line count mismatch", "%d %d %d %d" % (len(tags), len(impl), len(model), len(srcs)))
        return
    tally = {}
    reported = set()
    for t, i, m, s, cs in zip(tags, impl, model, srcs, cases):
        be = t.split(" ")[0]
        ck.case(be + cs[:4000], nontrivial=(s.count("fn ep") > 1 or "fn help" in s))
        missing = m.startswith("MISSING ")
        if missing:
            m = m[len("MISSING "):]
        ok = (m == "agree") if be == "spirv" else (i == m)
        tl = tally.setdefault(be, {"ok": 0, "differs": 0, "missing-binding-unreported": 0})
        if len(ck.samples) < 4 and ok and be != "spirv" and i.count("=") > 1:
            ck.samples.append({"backend": t, "observed": i[:300], "expected": m[:300]})
        if missing and not i.startswith("error"):
            tl["missing-binding-unreported"] += 1
            fid = None
            for k in ck.known:
                if k.get("match", {}).get("kind") == "missing-binding-unreported" and k["match"].get("backend") == be:
                    fid = k["id"]
            key = ("missing", be)
            if fid is not None or key not in reported:
                reported.add(key)
                ck.violation({"kind": "missing-binding-unreported", "finding": fid, "backend": be, "observed": i[:1000], "case": cs[:3000],
                              "wgsl": unq(s[1:-1]),
                              "how": "a resource has no entry in the caller's binding map and FakeMissingBindings is off: the back end "
                                     "must report the missing binding, it silently picks a default slot instead"}, found_input=True)
        if ok:
            tl["ok"] += 1
            continue
        tl["differs"] += 1
        # decided on the case: the difference is exactly one recorded omission (the expectation with that marker removed is
        # what the binary says)
        fid = None
        mm = re.match(r"DISAGREE expected=(.*) \| observed=(.*)$", m)
        if mm:
            for k in ck.known:
                mt = k.get("match", {})
                if mt.get("kind") == "expected-minus-marker-is-observed" and mt.get("backend") == be and mt["marker"] in mm.group(1) \
                        and mm.group(1).replace(mt["marker"], "") == mm.group(2):
                    fid = k["id"]
        key = ("diff", be)
        if fid is None and key in reported:
            continue
        if fid is None:
            reported.add(key)
        ck.violation({"kind": "binding-or-interface-differs", "finding": fid, "backend": t, "observed": i[:2000], "expected_or_verdict": m[:3000],
                      "case": cs[:3000], "wgsl": unq(s[1:-1]),
                      "how": "the bindings / interface the back end emitted differ from what the WGSL attributes and the supplied "
                             "binding map prescribe"}, found_input=True)
    ck.extra["results_per_backend"] = tally
    # reflection vs emitted text (no model needed: the two are outputs of the same call and must describe each other)
    rp = os.path.join(out, "reflect.txt")
    seen_r = set()
    for l in (common.read_lines(rp) if os.path.exists(rp) else []):
        parts = re.findall(r'"((?:[^"\\]|\\.)*)"', l)
        if len(parts) < 4 or parts[0] in seen_r:
            continue
        seen_r.add(parts[0])
        ck.violation({"kind": "reflection-does-not-describe-the-text", "what": unq(parts[0]), "reflection": unq(parts[1]), "text": unq(parts[2]),
                      "wgsl": unq(parts[3]),
                      "how": "the reflection data returned by the back end and the interface blocks of the text it returned disagree "
                             "(block name, uniform/storage kind or the (group, binding) of the global)"}, found_input=True)
    ck.extra["glsl_reflection"] = {k: v for k, v in ck.stats.get("c17", {}).items() if k.startswith("glsl-reflection")}
