"""C15 — generated code has no reachable undefined behaviour on hostile data."""
import os
import re
import subprocess
import sys

from vlib import clike, common

LEVEL = "proof"
EXPLANATION = (
    "Lean theorems (Naga.Props.C15, Naga.Props.C01): the naga_div / naga_mod / naga_neg helper bodies of the HLSL and MSL writers and "
    "naga_abs (MSL) - extracted from the real text on every run and matched by the kernel against CEmit.helperBody - are total in the "
    "target language (no /0, no INT_MIN/-1, no signed overflow in lhs - (lhs / d) * d, no negation overflow) and return the WGSL value "
    "for ALL 2^64 operand pairs; the SPIR-V naga_div / naga_mod wrapper bodies extracted from the real binary likewise (C01 "
    "wrapped_*_sound). Index guards: min(uint(i), n-1) is in bounds for every 32-bit index and the identity on in-range indices "
    "(restrict_in_bounds, restrict_identity); the read-zero-skip-write guard admits exactly the in-range indices; the MSL run-time-array "
    "bound (size - offset - stride) / stride is count - 1 exactly when the binding holds one element, every admitted index lies inside "
    "the buffer, with a witness of the unsigned wrap-around otherwise. Regenerated tie (R, Naga.Tie.C15): every dynamically indexed "
    "subscript in the real HLSL (RestrictIndexing) and MSL (Index = Restrict / ReadZeroSkipWrite) text of 1 400 access probes (array, "
    "vector, 9 matrix shapes, nested array, array member x function/private x load/store/compound/pointer argument/second subscript) is "
    "found by an independent parser and the kernel checks that none is unguarded and each guard constant is exactly length-1 / length "
    "(guards_ok), whence probed_restrict_in_bounds for all 2^32 indices. Execution (K/S): the same probes run with hostile indices "
    "(length, length+1, 2^31, 2^32-1, random) in a trapping interpreter of the target language against the clamped / zero / skipped "
    "result the policy prescribes; every operator probe incl. float->int conversion of +-inf, out-of-range and NaN bit patterns; random "
    "multi-entry-point modules whose helper DAGs read workgroup variables before any write, run per entry point on the real SPIR-V "
    "binary and the HLSL / MSL / GLSL text with never-stored workgroup variables undefined. HLSL abs(i32) is only _partial (INT_MIN "
    "witness). GLSL and SPIR-V offer no array/vector index policy (glsl.Options / spirv.Options carry image policies only): that clause "
    "of the property has no counterpart in the code and nothing is claimed or reported for it.")
ASSUMPTIONS = [
    "Lean 4 kernel; axioms propext, Classical.choice, Quot.sound only",
    "Sem.COps / Sem.CLike / Sem.Spv are my reading of the HLSL, MSL/C++14, GLSL and SPIR-V documents (trusted): out-of-object subscripts, signed overflow (HLSL/MSL), "
    "/0, INT_MIN/-1, out-of-range float->int conversion and reads of never-stored workgroup/private/function variables are errors, never given a value",
    "HLSL ByteAddressBuffer and SPIR-V storage-buffer accesses rely on the API's robust buffer access, not on naga guards (as upstream); MSL buffer guards are checked through _buffer_sizes",
    "one invocation per entry point: barriers are no-ops, the zero-initialisation guard `local_invocation_id == 0` is always taken; races between invocations are not modelled",
    "float->int: WGSL leaves NaN open (only definedness is required); saturation to INT_MAX/UINT_MAX is required (the helpers clamp to the largest smaller float: recorded finding)",
    "Go harness: probe programs, oracle for the access and workgroup probes (element arithmetic on literals), guard extraction from the parsed text",
]
RULE = ("access probes: 21 container shapes x {function, private} x {load, store, compound assignment, pointer argument, dynamic second subscript} x "
        "{u32, i32 index}, HLSL RestrictIndexing and MSL Index/Buffer = Restrict | ReadZeroSkipWrite, 6 hostile indices each; operator probes: every "
        "integer operator/builtin and f32->i32/u32 conversion x scalar/vec3 on boundary operand vectors, default + one random option set; workgroup "
        "probes: 2-5 workgroup variables of 6 types, 2-5 helpers in a random call DAG, 2-3 compute entry points, every entry point run separately; "
        "distinct by program + options + input")


def rtguards(ck):
    """MSL run-time-sized arrays: every guard `(size - OFF - A) / B` read from the real text must satisfy the hypotheses of
    Props/C15.msl_runtime_elem_in_buffer: OFF = the member's WGSL offset, size(E) <= A <= stride(E), B = stride(E)."""
    out = ck.harness("crtguards", 0)
    if out is None:
        return
    rows = common.read_lines(os.path.join(out, "rows.txt"))
    srcs = common.read_lines(os.path.join(out, "src.txt"))
    texts = common.read_lines(os.path.join(out, "text.txt"))
    stat = {"guards": 0, "ok": 0}
    reported = set()
    for r, s, tx in zip(rows, srcs, texts):
        head, _, tag = r.partition(" | ")
        ck.case("rtguard" + r, nontrivial=True)
        bad = None
        if head.startswith("guard off="):
            stat["guards"] += 1
            m = re.match(r"guard off=(\d+) esz=(\d+) stride=(\d+) want off=(\d+) esz=(\d+) stride=(\d+)", head)
            off, a, b, woff, wesz, wstride = map(int, m.groups())
            if off == woff and b == wstride and wesz <= a <= wstride:
                stat["ok"] += 1
                continue
            bad = "guard (size - %d - %d) / %d, WGSL layout: offset %d, element size %d, stride %d" % (off, a, b, woff, wesz, wstride)
        elif head.startswith("noguard"):
            bad = "no run-time bound in the emitted text"
        else:
            bad = head
        key = re.sub(r"[0-9]+", "N", bad)[:60]
        fid = None
        for k in ck.known:
            mt = k.get("match", {})
            if mt.get("kind") == "rtguard" and re.search(mt.get("what_regex", "$^"), bad) and re.search(mt.get("probe_regex", ""), tag):
                fid = k["id"]
        if fid is None and key in reported:
            continue
        if fid is None:
            reported.add(key)
        ck.violation({"kind": "msl-runtime-array-guard", "finding": fid, "probe": tag, "what": bad, "wgsl": clike.unq(s[1:-1]), "emitted": clike.unq(tx[1:-1])[:5000],
                      "how": "the bound the MSL writer computes for a run-time-sized array does not satisfy the hypotheses under which every "
                             "admitted index stays inside the binding (msl_runtime_elem_in_buffer): with a 64-byte binding an index past the "
                             "last whole element is admitted"}, found_input=True)
    ck.extra["msl_runtime_array_guards"] = stat


def run(ck):
    ck.rule = RULE
    ck.trusted = ["Lean kernel", "axioms: propext, Classical.choice, Quot.sound",
                  "L1 semantics: Sem.COps / Sem.CLike / Sem.Spv (target languages), WGSL rules in the probe oracles",
                  "Go harness: probes, cparse, guard extraction"]
    if not ck.build_harness():
        return
    # R: operator/helper tables, guard table, SPIR-V wrapper tables
    pd = ck.harness("cprobe", 0)
    gd = ck.harness("cguards", 0)
    sd = ck.harness("c01probe", 0)
    if pd is None or gd is None or sd is None or ck.harness("c01wrappers", 0, subdir="c01probe") is None:
        return
    with common.Lock("lake"):
        for tool, d in (("gen_ctables.py", pd), ("gen_cguards.py", gd), ("gen_spvtables.py", sd)):
            subprocess.run([sys.executable, os.path.join(common.VERIF, "tools", tool), d], check=True, stdout=subprocess.DEVNULL)
    proved = ck.prove(["Naga.Tie.CEmit", "Naga.Tie.C15", "Naga.Props.C15", "Naga.Tie.C01", "Naga.Props.C01"])
    if not ck.driver():
        return
    # K/S
    for d in ("hlsl", "msl", "glsl"):
        clike.access_sweep(ck, d, hostile=True)
    clike.storage_sweep(ck, "hlsl", hostile=True)
    for d in ("hlsl", "msl"):
        clike.sweep(ck, d, "cprobesem", 0)
    nwg = {"quick": 60, "thorough": 1500}.get(ck.tier, 60)
    for t in ("spv", "hlsl", "msl", "glsl"):
        clike.expected_sweep(ck, t, "cwg", nwg, [t], "cwg-" + t, t + "-workgroup-not-zero",
                             "an entry point of the emitted %s reads a workgroup variable that was never stored (undefined), or does not "
                             "produce the value WGSL prescribes for zero-initialised workgroup memory" % t.upper())
    rtguards(ck)
    if ck.tier == "thorough":
        ck.leanchecker(["Naga.Tie.CEmit", "Naga.Tie.C15", "Naga.Props.C15"])
    if not proved:
        ck.violation({"kind": "tie-broken", "what": "Naga.Tie.CEmit / Naga.Tie.C15 / Naga.Props.C15 / Naga.Tie.C01",
                      "why": "a helper body, an index guard or a SPIR-V wrapper extracted from the real back ends no longer matches the model "
                             "(or a theorem no longer checks); the hostile executions above are the failing-input search",
                      "detail": str(getattr(ck, "proof_failed", ""))[:3000]}, found_input=False)
