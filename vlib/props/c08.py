"""C08 — valid programs are accepted by every stage and every backend."""
from vlib import common
import json, os, re

LEVEL = "proof"
EXPLANATION = (
    "Lean theorem (Naga.Props.C08 check_eq_spec / valid_accepted): for every statement tree and every nesting context "
    "the control-flow diagnostics of the validator model (break/continue/return/kill under loop, continuing, switch, if, "
    "block) are exactly those of the WGSL placement rules stated over the stack of enclosing constructs — so no valid body "
    "is rejected; witnesses show the pinned (pre-fix) rule rejected valid bodies. Tie (K): random statement skeletons and "
    "random binding tables/call graphs are built as real ir.Module values and validated by the real ir.Validate; error lists "
    "are compared with the model one by one. The umbrella claim is checked as an acceptance sweep: every program of the "
    "type-directed WGSL generator must pass Parse, Lower, Validate and each of SPIR-V/HLSL/MSL/GLSL; a rejection is by "
    "itself a concrete failing input and is shrunk by the AST reducer. Literal grammar (bounded exhaustive test, not a theorem; Naga.Model.LitSpec): every string of up to 5-7 characters over digit / dot / exponent / sign / suffix / hex alphabets that is, as a whole, one numeric literal of the WGSL grammar (regular expressions transcribed from the specification) must be one token of its kind for the lexer model, which C19's token correspondence ties to the real lexer; the hexadecimal float literals are the recorded finding. Unbounded counterparts of four rows of that test are theorems (Naga.Props.LexLiteral: scan_int, scan_dot_digits, scan_dot_exp, scan_leading_dot — for digit runs of any length the model reads `D+;` as one integer literal and `D+.D*;`, `D+.eD+;`, `.D+;` as one float literal).")
ASSUMPTIONS = [
    "Lean 4 kernel; axioms propext, Classical.choice, Quot.sound only",
    "Validate.spec* is my transcription of the WGSL break/continue/continuing/return rules",
    "completeness of lowering and of the four backends is NOT proved (error paths are a catalogue over 60 kLOC); it is "
    "covered by the acceptance sweep only (translation-validation level for that part)",
    "generated programs are valid WGSL by construction of the generator (harness, trusted)",
]
N = {"quick": (3000, 250), "thorough": (100000, 8000)}


def acceptance(ck, cmd, n, extra_args=()):
    out = ck.harness(cmd, n, timeout=7000, extra_args=extra_args)
    if out is None:
        return
    impl = common.read_lines(os.path.join(out, "impl.txt"))
    srcs = common.read_lines(os.path.join(out, "src.txt"))
    shrunk = {}
    p = os.path.join(out, "shrunk.txt")
    if os.path.exists(p):
        for l in common.read_lines(p):
            m = re.match(r'"((?:[^"\\]|\\.)*)" "((?:[^"\\]|\\.)*)"', l)
            if m and m.group(1) not in shrunk:
                shrunk[m.group(1)] = unq(m.group(2))
    reported = set()
    for i, (a, s) in enumerate(zip(impl, srcs)):
        ck.case(s, nontrivial=("helper" in s or "loop" in s or "switch" in s or "if " in s or "ptr<" in s or "mat" in s))
        if i < 1:
            ck.samples.append({"wgsl": unq(s[1:-1])[:1500], "result": a})
        if a == "ok":
            continue
        segs = [x.strip() for x in a.strip().split(";") if x.strip()]
        # the first rejection, and (after a cause analysis by re-spelling) the first rejection of the re-spelled program
        heads = [segs[0]] + [x[len("respelled "):] for x in segs[1:] if x.startswith("respelled ")][:1]
        for head in heads:
            cls = re.sub(r"[0-9]", "N", head)
            if cls in reported:
                continue
            reported.add(cls)
            fid = None
            for k in ck.known:
                if re.search(k.get("match", {}).get("error_class_regex", "$^"), cls):
                    fid = k["id"]
            ck.violation({"kind": "valid-program-rejected", "finding": fid, "error_class": cls, "result": a,
                          "wgsl_shrunk": shrunk.get(cls), "wgsl": unq(s[1:-1]),
                          "how": "a generated valid WGSL program is rejected by a stage/backend"}, found_input=True)


def run(ck):
    ck.rule = ("(a) statement skeletons depth<=4 over brk/cont/ret/kill/other/block/if/switch/loop, and binding tables with "
               "1-5 globals, 0-3 helpers (cycles allowed), 1-3 entry points; (b) generated compute modules (helpers, ptr "
               "params, structs, switch/loop/for/while/continuing/break-if, builtins, conversions); (c) call signatures: by-value / pointer "
               "parameters of scalar, vector, (non-)square matrix, array, nested struct types x argument forms (variable, let, zero value, "
               "member / element / column, &x, &s.m, &a[i], &m[c]; function and private space); distinct by case text; "
               "non-trivial = contains at least one loop or switch / at least one helper or control-flow statement")
    ck.trusted = ["Lean kernel", "axioms: propext, Classical.choice, Quot.sound", "WGSL rule transcription (Validate.spec*)",
                  "Go harness (skeleton/module builders, WGSL generator, shrinker)"]
    if not ck.prove(["Naga.Props.C08", "Naga.Props.LexLiteral"]):
        ck.tie_broken("theorems", "Naga.Props.C08 no longer checks", str(ck.proof_failed))
    if not ck.build_harness() or not ck.driver():
        return
    nrules, nprog = N.get(ck.tier, N["quick"])
    out = ck.harness("c08rules", nrules)
    if out is not None and ck.run_driver(["c08"], os.path.join(out, "cases.txt"), os.path.join(out, "model.txt")):
        cases = common.read_lines(os.path.join(out, "cases.txt"))
        impl = common.read_lines(os.path.join(out, "impl.txt"))
        model = common.read_lines(os.path.join(out, "model.txt"))
        if not (len(cases) == len(impl) == len(model)):
            ck.tie_broken("c08-lines", "line count mismatch", "%d %d %d" % (len(cases), len(impl), len(model)))
        else:
            shown = 0
            for c, a, b in zip(cases, impl, model):
                ck.case(c, nontrivial=("loop" in c or "switch" in c or c.startswith("(bind")))
                if shown < 3 and a != "[]":
                    shown += 1
                    ck.samples.append({"case": c[:300], "implementation": a, "model": b})
                if a != b:
                    # the model equals the WGSL rule (theorem), so a real validator that reports an error the
                    # rule does not prescribe is a false rejection of a valid module = concrete failing input
                    ck.violation({"kind": "validator-rule-mismatch", "case": c, "expected_wgsl_rule": b, "observed": a,
                                  "how": "ir.Validate's diagnostics differ from the WGSL rule on this statement tree / binding table"},
                                 found_input=True)
    # acceptance sweeps: generated programs, then call signatures (parameter type shapes x argument forms)
    for cmd, n in (("c08", nprog), ("c08sig", max(300, nprog // 2))):
        acceptance(ck, cmd, n)
    # hand-written valid programs walking corners of the grammar (const_assert forms, template argument expressions and
    # closers, trailing commas, untyped module constants)
    wdir = os.path.join(common.VERIF, "corpus", "C08")
    files = tuple(sorted(os.path.join(wdir, f) for f in os.listdir(wdir) if f.endswith(".wgsl"))) if os.path.isdir(wdir) else ()
    if files:
        acceptance(ck, "c08corpus", 0, extra_args=files)
    # bounded exhaustive test (a test, not a theorem): every string over a small alphabet that is one numeric literal of the
    # WGSL grammar (regular expressions transcribed from the specification, Naga.Model.LitSpec) must be one token of the right
    # kind for the lexer model, which the token correspondence of C19 ties to the real lexer
    lit_in = os.path.join(ck.dir, "litspec-in.txt")
    sets = ["litspec 5 019.eE+-fhxXpPiuaA", "litspec 6 019.eE+-fhxpua"] + (["litspec 7 01.e+-fhxpu", "litspec 7 09.eE-fhlui"] if ck.tier == "thorough" else [])
    open(lit_in, "w").write("".join(x + "\n" for x in sets))
    if ck.run_driver(["litspec"], lit_in, os.path.join(ck.dir, "litspec-out.txt")):
        tot = {"literals": 0, "agree": 0, "hexfloat": 0}
        for req, line in zip(sets, common.read_lines(os.path.join(ck.dir, "litspec-out.txt"))):
            m = re.match(r"literals=(\d+) agree=(\d+) hexfloat=(\d+) other=\[(.*)\]$", line)
            if not m:
                ck.tie_broken("litspec", "unexpected driver answer", line[:300])
                continue
            n, a, h = int(m.group(1)), int(m.group(2)), int(m.group(3))
            tot["literals"] += n
            tot["agree"] += a
            tot["hexfloat"] += h
            for _ in range(n):
                ck.evaluations += 1
            if h:
                for k in ck.known:
                    if k["id"] == "C08-hex-float-literal-rejected":
                        ck.known_hits[k["id"]] = ck.known_hits.get(k["id"], 0) + h
            others = [x.strip() for x in m.group(4).split(",") if x.strip()]
            if others:
                ck.violation({"kind": "numeric-literal-of-the-grammar-not-one-token", "request": req, "literals": others[:20],
                              "how": "a numeric literal of the WGSL grammar is not lexed as one token of its kind by the lexer model "
                                     "(Naga.Model.Lexer, tied to the real lexer by the token correspondence): `let x = <literal>;` is rejected or misread"},
                             found_input=True)
        ck.extra["literal_grammar_test"] = tot
    # known findings must still reproduce on their recorded witness
    for k in ck.known:
        w = k.get("witness")
        if not w:
            continue
        wf = os.path.join(ck.dir, "witness-%s.wgsl" % k["id"])
        open(wf, "w").write(w)
        rc, log = common.run([ck.vh, "pipeline", "-out", ck.dir, wf])
        res = open(os.path.join(ck.dir, "pipeline.txt")).read() if os.path.exists(os.path.join(ck.dir, "pipeline.txt")) else ""
        cls = re.sub(r"[0-9]", "N", res.strip().split(";")[0].strip())
        if re.search(k.get("witness_class_regex") or k["match"]["error_class_regex"], cls):
            ck.known_hits[k["id"]] = ck.known_hits.get(k["id"], 0) + 1
        else:
            ck.notes.append("known finding %s no longer reproduces on its witness (stale entry): %s" % (k["id"], res[:200]))


def unq(s):
    return s.replace("\\n", "\n").replace('\\"', '"').replace("\\\\", "\\")
