"""C18 — DXIL output is a well-formed, self-consistent container with sound bitcode."""
from vlib import common
import os

LEVEL = "proof"
EXPLANATION = (
    "Lean theorems (Naga.Props.C18) about the model of bitcode.Writer: WriteBits refines 'append width bits' to the "
    "abstract bit stream and keeps the accumulator invariant (so the 64-bit buffer never overflows); WriteVBR appends "
    "exactly the LLVM VBR chunk sequence and readVBR inverts it for every 64-bit value and every width>=2; signed-VBR and "
    "char6 round trips; a witness that WriteFixed outside its precondition (width>32) is wrong. Tie: correspondence — "
    "op sequences (bits/fixed/vbr/char6/align/enter/exit/record) run on the real Writer via the verif hook vs the model, "
    "byte for byte; an independent Lean reader re-parses the real bytes back into the block/record tree; container "
    "builder vs model and independent container parser; retail (modified MD5) and shader (MD5) hashes vs independent "
    "Lean implementations; and every whole dxil.Compile output sampled is validated by the Lean container+bitstream "
    "reader (header, part table bounds/tiling, digest, program header vs stage/shader model, HASH part, bitstream "
    "nesting/lengths/alignment, no abbreviations; then Model/BitcodeSem on the parsed tree: NUMENTRY = number of type records, every type "
    "index inside types / globals / constants / casts / loads / GEPs / calls in range, module value numbering = globals, functions, constants, "
    "each function body continuing with its parameters and one value per result-bearing instruction, every relative operand naming an "
    "already defined value, phi operands inside the function's value range, absolute alloca sizes defined, block indices below DECLAREBLOCKS, "
    "metadata node / named-node / value operands naming existing entries), plus double-compilation determinism. The 50 kLOC emitter that produces "
    "the records is validated per instance only (translation-validation level for that part).")
ASSUMPTIONS = [
    "Lean 4 kernel; axioms propext, Classical.choice, Quot.sound only",
    "Bitcode.readItems / Container.parse / md5 / retailPad are my transcription of the LLVM 3.7 bitstream format, the DXBC container layout and INF-0004",
    "model keeps Writer.data as 32-bit words (the Go code only ever appends/back-patches whole dwords)",
    "module-level record semantics (type/value/metadata index bounds), PSV0/ISG1/OSG1 internals are not yet read back",
    "Go harness + verif hooks in package dxil",
]

N = {"quick": 300, "thorough": 5000}


def run(ck):
    ck.rule = ("random nested block/record trees (depth<=3, abbrev widths 2-7, boundary and random 64-bit operands), raw "
               "primitive sequences within preconditions, all 256 char6 inputs, boundary+random int64 for signed VBR, random "
               "part lists, byte strings of every length class around the 56/64 padding boundaries, corpus shaders through "
               "dxil.Compile with random SM 6.0-6.6 / hash mode; distinct by case line; non-trivial = not an empty op list")
    ck.trusted = ["Lean kernel", "axioms: propext, Classical.choice, Quot.sound",
                  "format transcriptions (LLVM bitstream, DXBC, INF-0004, RFC 1321)", "Go harness and dxil verif hook"]
    if not ck.prove(["Naga.Props.C18"]):
        ck.tie_broken("theorems", "Naga.Props.C18 no longer checks", str(ck.proof_failed))
    if not ck.build_harness() or not ck.driver():
        return
    out = ck.harness("c18", N.get(ck.tier, 300))
    if out is None:
        return
    if not ck.run_driver(["c18"], os.path.join(out, "cases.txt"), os.path.join(out, "model.txt")):
        return
    cases = common.read_lines(os.path.join(out, "cases.txt"))
    impl = common.read_lines(os.path.join(out, "impl.txt"))
    model = common.read_lines(os.path.join(out, "model.txt"))
    if not (len(cases) == len(impl) == len(model)):
        ck.tie_broken("c18-lines", "line count mismatch", "%d %d %d" % (len(cases), len(impl), len(model)))
        return
    kinds_seen = set()
    for c, a, b in zip(cases, impl, model):
        kind = c[1:].split(" ", 1)[0]
        ck.case(c, nontrivial=len(c) > 12)
        if kind not in kinds_seen:
            kinds_seen.add(kind)
            ck.samples.append({"case": c[:300], "implementation": a[:200], "model": b[:200]})
        if kind == "note":
            ck.violation({"kind": "dxil-compile-panic", "case": c, "observed": a,
                          "how": "dxil.Compile panicked on a corpus shader (property: 'otherwise returns an ordinary error')"})
            continue
        if a != b:
            what = {
                "bc": "bitcode.Writer bytes differ from the model for this op sequence (model = proven refinement of the abstract bit stream)",
                "read": "independent bitstream reader does not recover the written block/record tree from the real bytes",
                "svbr": "EncodeSignedVBR differs from the zig-zag encoding (round trip with LLVM's decoder is proved for the model)",
                "char6enc": "EncodeChar6 differs from the char6 table",
                "cont": "Container.Bytes differs from the DXBC layout model",
                "contread": "independent DXBC reader rejects / mis-parses the real container bytes",
                "retail": "ComputeRetailHash differs from the INF-0004 retail hash",
                "shaderhash": "WriteShaderHashPart differs from md5(bitcode) in the HASH part",
                "blob": "a real dxil.Compile output fails the container/bitstream validator or is non-deterministic",
            }.get(kind, "mismatch")
            ck.violation({"kind": "c18-" + kind, "case": c if len(c) < 20000 else c[:20000] + "...", "expected_model": b[:4000],
                          "observed": a[:4000], "how": what})
    # PSV0 resource table against the caller's binding map (dxil.Options.BindingMap)
    out = ck.harness("c18res", {"quick": 150, "thorough": 4000}.get(ck.tier, 150))
    if out is None or not os.path.exists(os.path.join(out, "cases.txt")):
        return
    if not ck.run_driver(["c18"], os.path.join(out, "cases.txt"), os.path.join(out, "model.txt")):
        return
    want = common.read_lines(os.path.join(out, "impl.txt"))
    got = common.read_lines(os.path.join(out, "model.txt"))
    srcs = common.read_lines(os.path.join(out, "src.txt"))
    shown = False
    for w, g, s in zip(want, got, srcs):
        ck.case("psvres" + s, nontrivial=True)
        if w != g and not shown:
            shown = True
            ck.violation({"kind": "c18-psv-resource-binding", "wgsl_and_binding_map": s[:3000], "expected_space_register_pairs": w, "psv0_records": g,
                          "how": "the PSV0 resource table of a real dxil.Compile output (read by the Lean model of the part) does not record every "
                                 "resource at the (space, register) the caller's BindingMap / the WGSL attributes prescribe"})
