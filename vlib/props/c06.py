"""C06 — compile-time evaluation agrees with run-time evaluation."""
from vlib import common
import os, re

LEVEL = "proof"
EXPLANATION = (
    "Lean theorems (Naga.Props.C06) about the model of the front end's literal folder (Naga.Model.Fold: foldBinaryLiterals "
    "through int64 + makeIntLiteral narrowing, tryFoldUnaryOp, foldAbs/Min/Max/Clamp): for ALL 2^64 operand pairs the folded "
    "value of + - * & | ^, / and % (zero divisor never folded; INT_MIN/-1 as WGSL defines), the six comparisons (signed and "
    "unsigned), unary - and ~, abs, min, max equals the WGSL run-time value (Sem.binScalar / math1 / math2); shifts and clamp "
    "only _partial (shift amount < 32; low <= high) with kernel-checked witnesses of the failure outside the hypothesis "
    "(`1u << 32u` folds to 0, run time gives 1; clamp(0,5,3) folds to 5, run time gives 3). Tie (K1): one-operator programs "
    "over boundary/random literal operands are lowered by the real front end and the literal found in the IR (or the fact that "
    "nothing was folded) is compared with the model, case by case. Program level (K2/S): typed constant-expression trees "
    "(literals, abstract-int literals, named and alias constants, all operators, integer builtins, conversions, constructors, "
    "swizzles; scalar and vector) are placed in every compile-time context (fn let/const, module const, annotated or inferred, "
    "inline) and lowered; the Lean side computes (a) the WGSL constant-evaluation result incl. mandated shader-creation errors "
    "(Sem.ConstEval, from the spec), (b) the WGSL reference evaluation of the program, (c) the Core-IR interpretation of "
    "naga's module, and the same three for the run-time twin in which every literal leaf is loaded from the input buffer. "
    "Any difference, or an accepted expression WGSL makes an error, is a concrete failing input.")
ASSUMPTIONS = [
    "Lean 4 kernel; axioms propext, Classical.choice, Quot.sound only",
    "Sem.Ops / Sem.ConstEval are my reading of WGSL (concrete integer + - * and unary - wrap in constant expressions; "
    "abstract-int arithmetic must not overflow i64 and must be representable when concretised; / % by zero, INT_MIN / -1, "
    "shift >= width, << overflow, clamp low > high are shader-creation errors; float->int conversion clamps)",
    "the model covers 32-bit integer and bool literals; float folding is exercised only by the sweep on small integral values",
    "ConstEval / Wgsl / IR interpreters are executable Lean (`partial def`), not objects of the theorems",
    "Go harness: expression generator, program builder, IR dumper",
]
N = {"quick": (4000, 3000), "thorough": (200000, 60000)}
UNSUPPORTED = re.compile(r"unsupported|expected integer literal|not a known constant|is not a scalar constant|must be an integer constant|"
                         r"cannot infer|unknown function|not supported|type mismatch")


# diagnostics that claim something about the *value* of the expression (as opposed to "this form is not handled")
VALUE_DIAG = re.compile(r"division by zero|modulo by zero|overflow|out of range|not representable|const_assert|must be positive|negative")


def unq(s):
    return s.replace("\\n", "\n").replace('\\"', '"').replace("\\\\", "\\")


def norm(s):
    return re.sub(r"-?[0-9]+", "N", s)


def run(ck):
    ck.rule = ("(K1) one-operator literal programs: 16 binary operators, - ~ abs min max clamp x i32/u32 x boundary/small/negative/"
               "random operands (shift amounts 0..69, 10% zero divisors); (K2) constant-expression trees depth 1-4 in 7 contexts, "
               "60% full grammar at function scope, 20% module-scope evaluator subset, 10% full grammar at module scope and 10% "
               "vector float->u32 conversions (the two recorded defect areas); distinct by source text; non-trivial = at least one "
               "operator or builtin applied to constants")
    ck.trusted = ["Lean kernel", "axioms: propext, Classical.choice, Quot.sound", "L1 semantics (Sem.Ops, Sem.ConstEval, Sem.Wgsl, Sem.IR)", "Go harness"]
    proved = ck.prove(["Naga.Props.C06"])
    if not proved:
        ck.tie_broken("theorems", "Naga.Props.C06 no longer checks", str(ck.proof_failed))
    if ck.tier == "thorough":
        ck.leanchecker(["Naga.Props.C06"])
    if not ck.build_harness() or not ck.driver():
        return
    nfold, ntree = N.get(ck.tier, N["quick"])
    # K1: fold probes vs model
    out = ck.harness("c06fold", nfold)
    if out is not None and ck.run_driver(["c06"], os.path.join(out, "cases.txt"), os.path.join(out, "model.txt")):
        cases = common.read_lines(os.path.join(out, "cases.txt"))
        impl = common.read_lines(os.path.join(out, "impl.txt"))
        model = common.read_lines(os.path.join(out, "model.txt"))
        srcs = common.read_lines(os.path.join(out, "src.txt"))
        if not (len(cases) == len(impl) == len(model)):
            ck.tie_broken("c06fold-lines", "line count mismatch", "%d %d %d" % (len(cases), len(impl), len(model)))
        else:
            reported = set()
            for c, a, b, s in zip(cases, impl, model, srcs):
                ck.case(c)
                if len(ck.samples) < 2:
                    ck.samples.append({"expression": s, "implementation": a, "model": b})
                if a != b:
                    key = c.split(" ")[1:4]
                    if tuple(key) in reported:
                        continue
                    reported.add(tuple(key))
                    # the model is proved equal to WGSL run-time evaluation (outside the _partial gaps), so a
                    # differing folded literal is a wrong compile-time value: the expression is the input
                    ck.violation({"kind": "folder-differs-from-model", "case": c, "expression": unq(s[1:-1]),
                                  "implementation_folded": a, "model_folded": b,
                                  "how": "`let x = <expression>;` lowered by the real front end: the literal in the IR differs from "
                                         "Naga.Fold (which Naga.Props.C06 proves equal to the WGSL value); compare with the same "
                                         "operands loaded from a buffer"}, found_input=True)
    # K2 / S: constant-expression trees
    out = ck.harness("c06", ntree, timeout=7000)
    if out is None or not ck.run_driver(["c06"], os.path.join(out, "cases.txt"), os.path.join(out, "model.txt")):
        return
    res = common.read_lines(os.path.join(out, "model.txt"))
    srcs = common.read_lines(os.path.join(out, "src.txt"))
    ctxs = common.read_lines(os.path.join(out, "ctx.txt"))
    cases = common.read_lines(os.path.join(out, "cases.txt"))
    if not (len(res) == len(srcs) == len(ctxs)):
        ck.tie_broken("c06-lines", "line count mismatch", "%d %d %d" % (len(res), len(srcs), len(ctxs)))
        return
    tally = {}
    reported = set()
    unsupported = 0
    for r, s, cx, cs in zip(res, srcs, ctxs, cases):
        context, knob = cx.split(" ")
        ck.case(s, nontrivial=any(k in s for k in ("(", "<<", ">>")))
        head = r.split(" ")[0]
        tally.setdefault(knob, {}).setdefault(head, 0)
        tally[knob][head] += 1
        if head in ("agree", "rejected-ok", "skip"):
            if len(ck.samples) < 5 and head != "skip":
                ck.samples.append({"context": cx, "wgsl": unq(s[1:-1])[:600], "result": r[:200]})
            continue
        fid = None
        if head == "MUST-REJECT":
            cls = norm(r.split("|")[0][len("MUST-REJECT "):].strip())
            kind = "constant-error-not-reported"
            how = "WGSL makes this constant expression a shader-creation error; naga accepted it and substituted the value shown"
        elif head == "VALID-REJECTED":
            msg = cs[cs.rfind(' "'):]
            if knob == "modfull" and (UNSUPPORTED.search(msg) or not VALUE_DIAG.search(msg)):
                unsupported += 1      # the module-scope evaluator refuses the form: nothing was evaluated
                continue
            cls = norm(msg)[:120]
            kind = "valid-constant-expression-rejected"
            how = "a valid constant expression is rejected with a constant-evaluation diagnostic"
        elif head.startswith("DISAGREE"):
            cls = "ir-error" if "ir-error[" in r else ("twin" if head != "DISAGREE" else "values")
            kind = "compile-time-value-differs"
            how = ("the value naga computed at compile time (Core-IR interpretation of the lowered module) differs from the WGSL "
                   "value of the expression / from the same expression evaluated with run-time operands")
        else:
            ck.tie_broken("c06-driver", "unexpected driver answer", r[:500])
            continue
        for k in ck.known:
            mt = k.get("match", {})
            if mt.get("kind") != kind:
                continue
            if mt.get("knob") and mt["knob"] != knob:
                continue
            if re.search(mt.get("class_regex", "$^"), cls):
                fid = k["id"]
        key = (kind, knob if kind != "constant-error-not-reported" else "", cls)
        if fid is None and key in reported:
            continue
        if fid is None:      # a listed finding never hides a later unlisted violation of the same class
            reported.add(key)
        ck.violation({"kind": kind, "finding": fid, "class": cls, "context": cx, "result": r[:1500], "wgsl": unq(s[1:-1]), "how": how},
                     found_input=True)
    ck.extra["results_per_knob"] = tally
    ck.extra["module_scope_forms_refused_as_unsupported"] = unsupported
