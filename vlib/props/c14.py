"""C14 — pipeline-overridable constants behave as substituted WGSL constants."""
from vlib import common
import os, re

LEVEL = "proof"
EXPLANATION = (
    "Lean theorem (Naga.Props.C14 init_arith_sound) about the model of ir.ProcessOverrides' value resolution "
    "(Naga.Model.Override: evaluateGlobalExprAsFloat / EvalBinaryFloat / EvalUnaryFloat / makeOverrideLiteral on the domain "
    "where float64 is exact): for every initialiser tree, of any size, over literals, references to resolved overrides, + - *, "
    "unary - and ~, and for all operand values, the resolved value narrowed to the override's 32-bit type equals the WGSL "
    "value of the same expression with wrapping arithmetic; outside the fragment the evaluator is wrong and the negations are "
    "kernel-checked witnesses (7 % 2 and 6 & 3 resolve to 0). Tie (K): the model's operator tables are compared with the "
    "exported ir.EvalBinaryFloat / ir.EvalUnaryFloat on integer operands. Program level (K/S): modules with 1-4 overrides "
    "(bool/i32/u32/f32, with/without @id, with/without default initialisers referring to earlier overrides) and value maps "
    "(absent, by id, by name) are resolved by the real ir.ProcessOverrides on a clone; the resolved module is executed by the "
    "Lean Core-IR interpreter and compared with the WGSL reference evaluation of the program in which every override is a "
    "`const` holding the supplied value converted to its type, or its default initialiser; the strict IR validator and naga's "
    "own validator run on the resolved module; the caller's module is compared before/after; a missing value without default "
    "and a value not representable in the override's type must be reported as errors.")
ASSUMPTIONS = [
    "Lean 4 kernel; axioms propext, Classical.choice, Quot.sound only",
    "IEEE-754: float64 +, -, * are exact on integers while operands and result stay below 2^53 (the bridge between the Go code "
    "and the integer model; not provable in Lean's kernel)",
    "supplied value -> override type follows WebGPU createPipeline rules: integral and in range for i32/u32, non-zero -> true "
    "for bool (NaN -> false), otherwise a pipeline-creation error",
    "@workgroup_size derived from overrides is decided by C17's interface probe, not here; array sizes derived from overrides: one "
    "workgroup array per 24 modules (class ovarr), through ir.ProcessOverrides and the msl / glsl PipelineConstants routes",
    "Go harness: override/value-map generator, reference-module builder, IR dumper",
]
N = {"quick": 1200, "thorough": 60000}


def route_shapes(src, values):
    """Decidable input shapes of the recorded defects of the MSL pipeline-constant route: which overrides are NOT supplied
    (their default initialiser is used) and what that initialiser looks like."""
    supplied = set(kv.split("=")[0] for kv in values.split(",") if "=" in kv)
    shapes = set()
    for m in re.finditer(r"(?:@id\((\d+)\) )?override (\w+): (\w+)(?: = ([^;]*))?;", src):
        oid, name, ty, init = m.groups()
        if name in supplied or (oid is not None and oid in supplied) or init is None:
            continue
        if ty in ("i32", "u32"):
            shapes.add("unsupplied-integer-default")
        if values.strip() == "" and re.search(r"[-+*/(!~]", init):
            # no value supplied at all: msl.Compile skips override resolution (len(PipelineConstants) == 0)
            shapes.add("empty-map-nonliteral-default")
    if re.search(r"var<workgroup> \w+: array<\w+, ov\w+>", src):
        shapes.add("override-sized-workgroup-array")
    return shapes


def unq(s):
    return s.replace("\\n", "\n").replace('\\"', '"').replace("\\\\", "\\")


def run(ck):
    ck.rule = ("(a) 800 operator probes of EvalBinaryFloat/EvalUnaryFloat; (b) override modules: 1-4 overrides x value maps; generator "
               "classes: clean (small values, + - * initialisers) 1/3, and one class per recorded defect area: initialiser operators "
               "outside + - *, values whose products exceed 2^32, bool values other than 0/1, unrepresentable values; distinct by "
               "(source, value map); non-trivial = an override with a default initialiser that refers to another override, or a supplied value")
    ck.trusted = ["Lean kernel", "axioms: propext, Classical.choice, Quot.sound", "IEEE-754 exactness of float64 below 2^53",
                  "L1 semantics (Sem.Wgsl, Sem.IR, Sem.IRValid)", "Go harness"]
    if not ck.prove(["Naga.Props.C14"]):
        ck.tie_broken("theorems", "Naga.Props.C14 no longer checks", str(ck.proof_failed))
    if ck.tier == "thorough":
        ck.leanchecker(["Naga.Props.C14"])
    if not ck.build_harness() or not ck.driver():
        return
    out = ck.harness("c14", N.get(ck.tier, N["quick"]), timeout=7000)
    if out is None or not ck.run_driver(["c14"], os.path.join(out, "cases.txt"), os.path.join(out, "model.txt")):
        return
    tags = common.read_lines(os.path.join(out, "tags.txt"))
    impl = common.read_lines(os.path.join(out, "impl.txt"))
    model = common.read_lines(os.path.join(out, "model.txt"))
    srcs = common.read_lines(os.path.join(out, "src.txt"))
    cases = common.read_lines(os.path.join(out, "cases.txt"))
    if not (len(tags) == len(impl) == len(model) == len(srcs)):
        ck.tie_broken("c14-lines", "line count mismatch", "%d %d %d %d" % (len(tags), len(impl), len(model), len(srcs)))
        return
    tally = {}
    reported = set()
    for t, i, m, s, cs in zip(tags, impl, model, srcs, cases):
        knob = t.split(" ")[0]
        if knob == "ops":
            ck.case(cs, nontrivial=True)
            if i != m:
                if ("ops",) not in reported:
                    reported.add(("ops",))
                    ck.violation({"kind": "operator-table-differs", "case": cs, "implementation": i, "model": m,
                                  "how": "ir.EvalBinaryFloat / ir.EvalUnaryFloat differs from Naga.Model.Override on integer operands"},
                                 found_input=True)
            continue
        parts = t.split(" ")
        hslot = int(parts[1].split("=")[1]) if len(parts) > 1 and parts[1].startswith("hslot=") else -1
        flags = [x for x in parts[2:4] if x in ("ovf", "f32lit")]
        ovf = "ovf" in flags          # an integer expression over the substituted overrides overflows 32 bits
        f32lit = "f32lit" in flags    # an unsuffixed integer literal of an initialiser is not exactly representable in f32
        vmap = " ".join(parts[2 + len(flags):]) if len(parts) > 2 else ""
        ck.case(s + vmap, nontrivial=("= (" in s or vmap != ""))
        viols = []
        status = i.split("|")[-1].strip()
        if "CALLER-MODULE-CHANGED" in status:
            viols.append(("caller-module-changed", "changed", "ir.ProcessOverrides on a clone altered the caller's original module"))
        if "invalid:" in status:
            viols.append(("resolved-module-invalid", re.sub(r"[0-9]+", "N", status)[:120], "naga's validator rejects the resolved module"))
        wf, _, sem = m.partition(" | ")
        head = sem.split(" ")[0] if sem else m.split(" ")[0]
        tally.setdefault(knob, {}).setdefault(head, 0)
        tally[knob][head] += 1
        if wf.startswith("NOT-WF"):
            viols.append(("resolved-module-ill-formed", wf[7:][:140], "the resolved module violates the IR contract (strict validator)"))
        if head == "UNEXPECTED-ERROR":
            viols.append(("valid-resolution-rejected", re.sub(r"[0-9]+", "N", i.split("|")[0])[:140],
                          "ProcessOverrides fails although every override has a supplied value or a default initialiser"))
        elif head == "MUST-REJECT":
            viols.append(("bad-value-accepted", re.sub(r"-?[0-9.]+(e\+?[0-9]+)?|[+-]Inf|NaN", "N", sem.split("|")[0])[:100],
                          "a missing / unrepresentable pipeline-constant value is not reported; the value shown was substituted"))
        elif head == "DISAGREE":
            # which output words differ?  (the value-returning helper's result lives in word `hslot`)
            mm = re.search(r"wgsl=\[\[([0-9, ]*)\]\] naga=\[\[([0-9, ]*)\]\]", sem)
            only_helper = False
            if mm and hslot >= 0:
                a, b = mm.group(1).split(", "), mm.group(2).split(", ")
                diff = [k for k in range(min(len(a), len(b))) if a[k] != b[k]]
                only_helper = diff == [hslot]
            elif hslot >= 0 and "naga=error" in sem:
                only_helper = True
            viols.append(("resolved-value-differs", "helper-result" if only_helper else "values",
                          "executing the resolved module differs from the WGSL program with the overrides substituted"))
        for kind, cls, how in viols:
            fid = None
            for k in ck.known:
                mt = k.get("match", {})
                if mt.get("needs_helper") and hslot < 0:
                    continue
                if mt.get("needs_overflow") and not ovf:
                    continue
                if mt.get("needs_f32lit") and not f32lit:
                    continue
                if mt.get("src_regex") and not re.search(mt["src_regex"], unq(s)):
                    continue      # decided on the case: the source text has the shape the finding names
                for alt in [mt] + [a for a in mt.get("alternatives", []) if a.get("kind") != "pipeline-constant-route-differs"]:
                    akind = alt.get("kind", mt.get("kind", ""))
                    if re.fullmatch(akind.strip("^$") if akind.startswith("^") else re.escape(akind), kind) \
                            and re.search(alt.get("knob_regex", mt.get("knob_regex", ".*")), knob) \
                            and re.search(alt.get("class_regex", mt.get("class_regex", ".*")), cls):
                        fid = fid or k["id"]
            key = (kind, knob, cls)
            if fid is None and key in reported:
                continue
            if fid is None:      # a listed finding never hides a later unlisted violation of the same class
                reported.add(key)
            ck.violation({"kind": kind, "finding": fid, "class": cls, "generator_class": knob, "int_overflow": ovf, "values": vmap, "result": m[:1500],
                          "status": i[:300], "wgsl": unq(s[1:-1]), "how": how}, found_input=True)
        if len(ck.samples) < 3 and head == "agree" and vmap:
            ck.samples.append({"values": vmap, "wgsl": unq(s[1:-1])[:500], "result": m[:200]})
    ck.extra["results_per_generator_class"] = tally
    # ---- the back ends' own pipeline-constant options: the emitted text, executed by the target-language interpreter
    rc = os.path.join(out, "route-cases.txt")
    if os.path.exists(rc):
        lines = common.read_lines(rc)
        # routeerr lines are answered here; the rest go to the csem driver
        sem_in = os.path.join(out, "route-sem.txt")
        open(sem_in, "w").write("".join(l + "\n" for l in lines if l.startswith("(csem ")))
        res_sem = []
        if ck.run_driver(["csem"], sem_in, os.path.join(out, "route-model.txt")):
            res_sem = common.read_lines(os.path.join(out, "route-model.txt"))
        rtags = common.read_lines(os.path.join(out, "route-tags.txt"))
        rsrcs = common.read_lines(os.path.join(out, "route-src.txt"))
        rtexts = common.read_lines(os.path.join(out, "route-text.txt"))
        rt = {}
        k = 0
        for l, t, s, tx in zip(lines, rtags, rsrcs, rtexts):
            route = t.split(" ")[0]
            knob = t.split(" ")[1]
            rparts = t.split(" ")
            rflags = [x for x in rparts[3:5] if x in ("ovf", "f32lit")]
            rovf = "ovf" in rflags
            rvals = " ".join(rparts[3 + len(rflags):])
            ck.case(route + s + t, nontrivial=True)
            if l.startswith("(routeerr "):
                r = "ERROR " + unq(l[len("(routeerr "):-1].strip('"'))
            else:
                r = res_sem[k] if k < len(res_sem) else "driver-missing"
                k += 1
            head = r.split(" ")[0]
            rt.setdefault(route, {}).setdefault(head, 0)
            rt[route][head] += 1
            if head in ("agree", "skip", "excluded"):
                continue
            cls = "values"
            if head == "ERROR":
                cls = "error: " + re.sub(r"[0-9]+", "N", r[6:])[:100]
            elif "-error[" in r:
                cls = re.sub(r"[0-9]+", "N", r[r.index("-error[") + 7:])[:100]
            fid = None
            shapes = route_shapes(unq(s[1:-1]), rvals)
            for kf in ck.known:
                mt = kf.get("match", {})
                for alt in [mt] + mt.get("alternatives", []):
                    if alt.get("kind", mt.get("kind")) == "pipeline-constant-route-differs" and alt.get("route", mt.get("route")) == route \
                            and re.search(alt.get("class_regex", ".*"), cls) \
                            and (alt.get("shape", mt.get("shape")) in shapes or alt.get("any_shape")) \
                            and (rovf or not alt.get("needs_overflow")):
                        fid = fid or kf["id"]
            key = ("route", route, cls)
            if fid is None and key in reported:
                continue
            if fid is None:
                reported.add(key)
            ck.violation({"kind": "pipeline-constant-route-differs", "finding": fid, "route": route, "class": cls, "generator_class": knob,
                          "values": rvals, "int_overflow": rovf, "result": r[:1500], "wgsl": unq(s[1:-1]), "emitted": unq(tx[1:-1])[:5000],
                          "how": "the text written by the back end under its own PipelineConstants option, executed by the target-language "
                                 "interpreter, differs from the WGSL program with the overrides substituted"}, found_input=True)
        ck.extra["pipeline_constant_routes"] = rt
