"""C10 — no input makes the compiler panic, crash, hang or exhaust memory."""
from vlib import common
import os, re, resource, subprocess, time

LEVEL = "other"
LEVEL_TEXT = (
    "partial: Lean theorems (Naga.Props.C10): the lexer model (tied to the real lexer by C19's token correspondence) terminates "
    "for every source within |src|+1 steps and emits at most |src|+1 tokens (lex_terminates, lex_token_bound); the "
    "zero-initialiser expansion of the GLSL writer has exactly prod(array lengths) leaves (expansion_exact) — k^d for a type "
    "spelled with O(d) characters, so the polynomial resource bound of the property fails there (expansion_not_linear), which the "
    "sweep reproduces as an out-of-memory crash on a 150-byte source. Panics, stack depth, allocation and hangs are Go run-time "
    "behaviour that no model of mine exhibits; they are explored, not proved: an isolated worker process (address-space limit, "
    "wall-clock limit, panics recovered per stage, progress line flushed before every input, crashed inputs identified and the "
    "worker restarted behind them) drives tokenize, parse+lower, validate, the one-call compile and SPIR-V (2 option sets), HLSL, "
    "MSL, GLSL core and ES, DXIL on 12 input classes: arbitrary bytes, token soup, byte/token mutations, truncations and "
    "concatenations of valid programs, deep expression and statement nesting, long chains, huge literals and array sizes, "
    "value-less calls used as values, very long constructs, cyclic declarations. A panic, a fatal runtime error, a stall or an "
    "input slower than the per-input budget is itself the failing input.")
EXPLANATION = LEVEL_TEXT
ASSUMPTIONS = [
    "Lean 4 kernel; axioms propext, Classical.choice, Quot.sound only",
    "the theorems cover lexer termination/size and the expansion kernel only; parser, lowerer, validator and back ends are "
    "explored by the worker sweep (partial by nature: stack overflow, OOM and panics are Go run-time behaviour)",
    "budgets: 6 GiB address space, 45 s of the worker's CPU time per stage and per input (quick), 120 s (thorough), 8 times that in wall-clock time — an input slower than that is reported",
    "Go harness: input generator, stage driver with recover; Python supervisor: limits, crash attribution, restart",
]
TECHNIQUE = "Lean 4 theorems for the lexer and expansion kernels + isolated-worker fuzzing with resource limits (exploration)"
N = {"quick": 1800, "thorough": 120000}
PER_INPUT_S = {"quick": 45, "thorough": 120}


def limits():
    resource.setrlimit(resource.RLIMIT_AS, (6 << 30, 6 << 30))


def run(ck):
    ck.rule = ("12 input classes in rotation (bytes, token soup, 2x mutation of generated valid programs, deep expressions, deep "
               "statements, huge literals/arrays, void-as-value, long constructs, cyclic declarations, truncation, valid+garbage), "
               "sizes up to 64 KiB; one case = one input through every entry point; non-trivial = every case")
    ck.trusted = ["Lean kernel", "axioms: propext, Classical.choice, Quot.sound", "Go harness + Python supervisor (limits, attribution)"]
    if not ck.prove(["Naga.Props.C10"]):
        ck.tie_broken("theorems", "Naga.Props.C10 no longer checks", str(ck.proof_failed))
    if ck.tier == "thorough":
        ck.leanchecker(["Naga.Props.C10"])
    if not ck.build_harness():
        return
    n = N.get(ck.tier, N["quick"])
    per = PER_INPUT_S.get(ck.tier, 20)
    out = os.path.join(ck.dir, "c10")
    os.makedirs(out, exist_ok=True)
    skip = 0
    tally = {}
    slowest = (0, "")
    reported = set()
    restarts = 0
    env = common.env()
    env["GOMEMLIMIT"] = "4GiB"
    while skip < n and restarts < 200:
        logp = os.path.join(out, "worker-%d.log" % restarts)
        errp = os.path.join(out, "worker-%d.err" % restarts)
        with open(logp, "wb") as lo, open(errp, "wb") as le:
            p = subprocess.Popen([ck.vh, "c10", "-seed", str(ck.seed), "-tier", ck.tier, "-n", str(n), "-out", out, "skip=%d" % skip],
                                 cwd=ck.dir, env=env, stdout=lo, stderr=le, preexec_fn=limits)
            # watchdog: the log must advance at least every `per` seconds of the worker's own CPU time (a loaded machine
            # must not turn a 10 s stage into a "stall"), and in any case every 8 x `per` seconds of wall-clock time (a
            # worker that sleeps or deadlocks burns no CPU)
            tick = os.sysconf("SC_CLK_TCK")

            def cpu_s(pid):
                try:
                    f = open("/proc/%d/stat" % pid).read().rsplit(")", 1)[1].split()
                    return (int(f[11]) + int(f[12])) / tick
                except Exception:
                    return 0.0
            last_size, last_t, last_cpu = -1, time.time(), 0.0
            stalled = False
            while p.poll() is None:
                time.sleep(0.2)
                sz = os.path.getsize(logp)
                if sz != last_size:
                    last_size, last_t, last_cpu = sz, time.time(), cpu_s(p.pid)
                elif cpu_s(p.pid) - last_cpu > per or time.time() - last_t > 8 * per:
                    stalled = True
                    p.kill()
                    p.wait()
                    break
        lines = common.read_lines(logp)
        begun, ended, stage = None, -1, ""
        for l in lines:
            f = l.split(" ")
            if f[0] == "STAGE":
                stage = f[1]
            elif f[0] == "BEGIN":
                begun = (int(f[1]), f[2], int(f[3]))
            elif f[0] == "END":
                idx, cls, ms = int(f[1]), f[2], int(f[3])
                ended = idx
                ck.case("c10-%d" % idx)
                verdict = " ".join(f[4:])
                tl = tally.setdefault(cls, {"ok": 0, "panic": 0, "slow": 0, "fatal-or-stall": 0})
                if ms > slowest[0]:
                    slowest = (ms, "%s #%d" % (cls, idx))
                if verdict.startswith("PANIC"):
                    tl["panic"] += 1
                    sig = re.sub(r"0x[0-9a-f]+|[0-9]+", "N", verdict)[:160]
                    report(ck, reported, out, idx, cls, "panic", sig, verdict)
                elif ms > per * 1000:
                    tl["slow"] += 1
                    report(ck, reported, out, idx, cls, "slow", "slower than %d s" % per, "took %d ms" % ms)
                else:
                    tl["ok"] += 1
        if p.returncode == 0 and not stalled and (begun is None or begun[0] == ended):
            break
        # the worker died or stalled inside input `begun`
        restarts += 1
        if begun is None or begun[0] == ended:
            ck.tie_broken("c10-worker", "worker exited abnormally outside an input", open(errp, "rb").read()[-2000:].decode("utf-8", "replace"))
            break
        idx, cls, _ = begun
        ck.case("c10-%d" % idx)
        err = open(errp, "rb").read().decode("utf-8", "replace")
        m = re.search(r"fatal error: [^\n]*|runtime: [^\n]*|signal [^\n]*", err)
        sig = "stage %s stalled for more than %d s" % (stage, per) if stalled else (m.group(0) if m else "exit status %s" % p.returncode)
        frame = re.search(r"github.com/gogpu/naga/[^\s(]+\.\(?[^\n(]*", err)
        tally.setdefault(cls, {"ok": 0, "panic": 0, "slow": 0, "fatal-or-stall": 0})["fatal-or-stall"] += 1
        report(ck, reported, out, idx, cls, "stall" if stalled else "fatal", re.sub(r"[0-9]+", "N", sig)[:120],
               sig + (" in " + frame.group(0) if frame else ""))
        skip = idx + 1
    ck.extra["results_per_class"] = tally
    ck.extra["worker_restarts"] = restarts
    ck.extra["slowest_input_ms"] = {"ms": slowest[0], "input": slowest[1]}


def input_of(out, idx):
    p = os.path.join(out, "inputs.txt")
    if not os.path.exists(p):
        return ""
    for l in open(p, encoding="utf-8", errors="replace"):
        if l.startswith("%d " % idx):
            return l.rstrip("\n").split(" ", 2)[2]
    return ""


def report(ck, reported, out, idx, cls, kind, sig, detail):
    fid = None
    for k in ck.known:
        mt = k.get("match", {})
        if re.search(mt.get("kind_regex", "^$"), kind) and re.search(mt.get("class_regex", ".*"), cls) and re.search(mt.get("signature_regex", ".*"), sig + " " + detail):
            fid = k["id"]
    key = (kind, cls, sig)
    if fid is None and key in reported:
        return
    if fid is None:      # a listed finding never hides a later unlisted violation of the same class
        reported.add(key)
    src = input_of(out, idx)
    ck.violation({"kind": kind, "finding": fid, "input_class": cls, "input_index": idx, "signature": sig, "detail": detail[:1500],
                  "input_quoted": src[:20000], "input_bytes": len(src),
                  "how": "the worker process running every public entry point on this input %s" %
                         {"panic": "recovered a panic", "fatal": "died with a fatal runtime error", "stall": "made no progress within the budget",
                          "slow": "needed longer than the per-input budget"}[kind]}, found_input=True)
