"""C07 — buffer memory layout is the WGSL layout."""
from vlib import common
import os

LEVEL = "proof"
EXPLANATION = (
    "Lean theorems (Naga.Props.C07): for every well-formed host-shareable type tree (unbounded depth/width) the "
    "layout numbers computed by the model of lowerStruct/typeAlignmentAndSize/resolveType-stride/TypeSize equal the "
    "WGSL memory-layout rules (naga_eq_spec), incl. the bit-clear rounding = roundUp for power-of-two alignments. "
    "Tie: correspondence — random type trees are compiled by the real front end and backends; every Offset/Span/"
    "Stride/TypeSize in the IR and every Offset/ArrayStride/MatrixStride decoration in the SPIR-V binary is compared "
    "with the executable model (= spec by the theorem). A mismatch is itself a concrete failing input.")
ASSUMPTIONS = [
    "Lean 4 kernel; axioms propext, Classical.choice, Quot.sound only",
    "Layout.spec* is my transcription of WGSL §14.4 (Memory Layout)",
    "model arithmetic is on unbounded Nat (uint32 wrap-around of sizes >= 4 GiB not modelled)",
    "Go harness: type-tree generator, IR walker, independent SPIR-V decoration reader",
]

N = {"quick": 400, "thorough": 20000}


def run(ck):
    ck.rule = ("random struct/array/matrix/vector/scalar/atomic trees (depth<=4 incl. top, <=8 members, f16 on 15%, "
               "@align on 30% and @size on 25% of members, optional trailing runtime array); non-trivial = at least one "
               "nested struct/array or explicit attribute; distinct by tree")
    ck.trusted = ["Lean kernel", "axioms: propext, Classical.choice, Quot.sound", "WGSL layout transcription (Layout.spec*)",
                  "Go harness (generator, IR/SPIR-V readers)"]
    proved = ck.prove(["Naga.Props.C07"])
    if not proved:
        ck.tie_broken("theorems", "Naga.Props.C07 no longer checks", str(ck.proof_failed))
    if not ck.build_harness() or not ck.driver():
        return
    out = ck.harness("c07", N.get(ck.tier, 400))
    if out is None:
        return
    cases = common.read_lines(os.path.join(out, "cases.txt"))
    impl = common.read_lines(os.path.join(out, "impl.txt"))
    srcs = common.read_lines(os.path.join(out, "src.txt"))
    if not ck.run_driver(["c07", "spec"], os.path.join(out, "cases.txt"), os.path.join(out, "model.txt")):
        return
    model = common.read_lines(os.path.join(out, "model.txt"))
    if not (len(cases) == len(impl) == len(model)):
        ck.tie_broken("c07-lines", "line count mismatch", "%d %d %d" % (len(cases), len(impl), len(model)))
        return
    for i, (c, a, b) in enumerate(zip(cases, impl, model)):
        nontrivial = ("(struct" in c[12:]) or ("(arr" in c) or any(
            (" %d %d)" % (x, y)) not in (" 0 0)",) for x, y in ())
        ck.case(c, nontrivial)
        if i < 3:
            ck.samples.append({"type_tree": c, "implementation": a, "model": b})
        if a != b:
            ck.violation({"kind": "layout-mismatch", "type_tree": c, "wgsl": srcs[i], "expected_spec": b, "observed": a,
                          "how": "offsets/spans/strides recorded by naga (ir=) or decorated in SPIR-V (spv=) differ from WGSL layout"})
