"""C07 — buffer memory layout is the WGSL layout."""
from vlib import common
import os, re

LEVEL = "proof"
EXPLANATION = (
    "Lean theorems (Naga.Props.C07): for every well-formed host-shareable type tree (unbounded depth/width) the "
    "layout numbers computed by the model of lowerStruct/typeAlignmentAndSize/resolveType-stride/TypeSize equal the "
    "WGSL memory-layout rules (naga_eq_spec), incl. the bit-clear rounding = roundUp for power-of-two alignments. "
    "Tie: correspondence — random type trees are compiled by the real front end and backends; every Offset/Span/"
    "Stride/TypeSize in the IR, every Offset/ArrayStride/MatrixStride decoration in the SPIR-V binary, the constant byte "
    "address of every HLSL ByteAddressBuffer store to 1-8 random leaf paths (Layout.offsetOfPath), and the offsets/"
    "strides/sizes that the C++ layout rules (Layout.cppDump, MSL spec table sizes) give the struct declarations in the "
    "MSL text, are compared with the executable model (= spec by the theorem). A mismatch is itself a concrete failing input. GLSL (K): the back end writes buffers as std430 / std140 blocks of plain struct declarations without offsets; Layout.glslDump computes the layout those qualifiers prescribe for the declarations read from the real text, which must equal the WGSL layout (it does whenever no @align / @size moves a member; the cases where it does not are the recorded finding).")
ASSUMPTIONS = [
    "Lean 4 kernel; axioms propext, Classical.choice, Quot.sound only",
    "Layout.spec* is my transcription of WGSL §14.4 (Memory Layout)",
    "model arithmetic is on unbounded Nat (uint32 wrap-around of sizes >= 4 GiB not modelled)",
    "Go harness: type-tree generator, IR walker, independent SPIR-V decoration reader, regex readers for HLSL store addresses and MSL struct declarations",
    "Layout.mslBuiltin/cppSizeAlign: my transcription of the MSL size/alignment tables and C++ struct layout",
    "GLSL: the std430 layout (my transcription of OpenGL 4.6 7.6.2.2, Layout.glslDump) of the struct declarations the back end wrote is compared with the WGSL layout; modules using f16 are left out",
]

N = {"quick": 2000, "thorough": 40000}


def run(ck):
    ck.rule = ("random struct/array/matrix/vector/scalar/atomic trees (depth<=4 incl. top, <=8 members, f16 on 30%, "
               "@align on 30% and @size on 25% of members, optional trailing runtime array); non-trivial = at least one "
               "nested struct/array or explicit attribute; distinct by tree")
    ck.trusted = ["Lean kernel", "axioms: propext, Classical.choice, Quot.sound", "WGSL layout transcription (Layout.spec*)",
                  "Go harness (generator, IR/SPIR-V readers)"]
    proved = ck.prove(["Naga.Props.C07", "Naga.Props.GlslLayout"])
    if not proved:
        ck.tie_broken("theorems", "Naga.Props.C07 no longer checks", str(ck.proof_failed))
    if not ck.build_harness() or not ck.driver():
        return
    out = ck.harness("c07", N.get(ck.tier, 400))
    if out is None:
        return
    cases = common.read_lines(os.path.join(out, "cases.txt"))
    impl = common.read_lines(os.path.join(out, "impl.txt"))
    srcs = common.read_lines(os.path.join(out, "src.txt"))
    if not ck.run_driver(["c07", "spec"], os.path.join(out, "cases.txt"), os.path.join(out, "model.txt")):
        return
    model = common.read_lines(os.path.join(out, "model.txt"))
    # the C++ layout (Layout.cppDump) of the struct declarations the MSL back end wrote
    if not ck.run_driver(["c07msl"], os.path.join(out, "msl.txt"), os.path.join(out, "mslout.txt")):
        return
    mslout = common.read_lines(os.path.join(out, "mslout.txt"))
    if len(mslout) == len(impl):
        impl = [a + " msl=" + m for a, m in zip(impl, mslout)]
    if not (len(cases) == len(impl) == len(model)):
        ck.tie_broken("c07-lines", "line count mismatch", "%d %d %d" % (len(cases), len(impl), len(model)))
        return
    # GLSL: the std430 / std140 layout (Layout.glslDump) of the declarations the GLSL back end wrote — it writes no offsets, so
    # this is where the members are; expected: the same WGSL numbers the MSL comparison uses
    glsl_tally = {"agree": 0, "differ": 0, "error": 0}
    gpath = os.path.join(out, "glsl.txt")
    if os.path.exists(gpath) and ck.run_driver(["c07glsl"], gpath, os.path.join(out, "glslout.txt")):
        glslout = common.read_lines(os.path.join(out, "glslout.txt"))
        gsrc = common.read_lines(gpath)
        seen_g = set()
        for i, (g, b) in enumerate(zip(glslout, model)):
            mexp = re.search(r"msl=(\[[^\]]*\])", b)
            if not mexp or g in ("error", "bad-case line") or "enable f16" in srcs[i]:
                # the back end refused the module, or the module uses f16 (GLSL has no 16-bit float in buffers: outside the comparison)
                glsl_tally["error"] += 1
                continue
            if g == mexp.group(1):
                glsl_tally["agree"] += 1
                continue
            glsl_tally["differ"] += 1
            tree = cases[i]
            has_attr = re.search(r"\(m \([^()]*(\([^()]*\)[^()]*)*\) (?!0 0\))\d+ \d+\)", tree) is not None or re.search(r"\) [1-9]\d* \d+\)|\) \d+ [1-9]\d*\)", tree) is not None
            qual = gsrc[i].split(" ")[1] if gsrc[i].startswith("(glsl ") else "?"
            cls = "%s attrs=%s" % (qual, has_attr)
            fid = None
            for k in ck.known:
                mt = k.get("match", {})
                if mt.get("kind") == "glsl-layout" and re.search(mt.get("class_regex", "$^"), cls):
                    fid = k["id"]
            if fid is None and cls in seen_g:
                continue
            seen_g.add(cls)
            ck.violation({"kind": "glsl-layout-mismatch", "finding": fid, "class": cls, "type_tree": tree, "wgsl": srcs[i],
                          "expected_wgsl_layout": mexp.group(1), "glsl_layout_of_the_emitted_declarations": g, "declarations": gsrc[i][:3000],
                          "how": "the GLSL back end writes the buffer as a %s block without offset qualifiers; under that layout the members "
                                 "of the emitted declarations are not where the WGSL layout puts them" % qual})
    ck.extra["glsl_block_layout"] = glsl_tally
    for i, (c, a, b) in enumerate(zip(cases, impl, model)):
        nontrivial = ("(struct" in c[12:]) or ("(arr" in c) or any(
            (" %d %d)" % (x, y)) not in (" 0 0)",) for x, y in ())
        ck.case(c, nontrivial)
        if i < 3:
            ck.samples.append({"type_tree": c, "implementation": a, "model": b})
        if a != b:
            ck.violation({"kind": "layout-mismatch", "type_tree": c, "wgsl": srcs[i], "expected_spec": b, "observed": a,
                          "how": "offsets/spans/strides recorded by naga (ir=), decorated in SPIR-V (spv=), used as byte addresses by the "
                                 "HLSL stores to the listed paths (hlsl=), or implied by the C++ layout of the MSL struct declarations "
                                 "(msl=) differ from the WGSL layout"})
