"""C07 — buffer memory layout is the WGSL layout."""
from vlib import common
import os

LEVEL = "proof"
EXPLANATION = (
    "Lean theorems (Naga.Props.C07): for every well-formed host-shareable type tree (unbounded depth/width) the "
    "layout numbers computed by the model of lowerStruct/typeAlignmentAndSize/resolveType-stride/TypeSize equal the "
    "WGSL memory-layout rules (naga_eq_spec), incl. the bit-clear rounding = roundUp for power-of-two alignments. "
    "Tie: correspondence — random type trees are compiled by the real front end and backends; every Offset/Span/"
    "Stride/TypeSize in the IR, every Offset/ArrayStride/MatrixStride decoration in the SPIR-V binary, the constant byte "
    "address of every HLSL ByteAddressBuffer store to 1-8 random leaf paths (Layout.offsetOfPath), and the offsets/"
    "strides/sizes that the C++ layout rules (Layout.cppDump, MSL spec table sizes) give the struct declarations in the "
    "MSL text, are compared with the executable model (= spec by the theorem). A mismatch is itself a concrete failing input.")
ASSUMPTIONS = [
    "Lean 4 kernel; axioms propext, Classical.choice, Quot.sound only",
    "Layout.spec* is my transcription of WGSL §14.4 (Memory Layout)",
    "model arithmetic is on unbounded Nat (uint32 wrap-around of sizes >= 4 GiB not modelled)",
    "Go harness: type-tree generator, IR walker, independent SPIR-V decoration reader, regex readers for HLSL store addresses and MSL struct declarations",
    "Layout.mslBuiltin/cppSizeAlign: my transcription of the MSL size/alignment tables and C++ struct layout",
    "GLSL std430 blocks are not compared (explicit @align/@size cannot be expressed there; naga emits no offsets)",
]

N = {"quick": 2000, "thorough": 40000}


def run(ck):
    ck.rule = ("random struct/array/matrix/vector/scalar/atomic trees (depth<=4 incl. top, <=8 members, f16 on 30%, "
               "@align on 30% and @size on 25% of members, optional trailing runtime array); non-trivial = at least one "
               "nested struct/array or explicit attribute; distinct by tree")
    ck.trusted = ["Lean kernel", "axioms: propext, Classical.choice, Quot.sound", "WGSL layout transcription (Layout.spec*)",
                  "Go harness (generator, IR/SPIR-V readers)"]
    proved = ck.prove(["Naga.Props.C07"])
    if not proved:
        ck.tie_broken("theorems", "Naga.Props.C07 no longer checks", str(ck.proof_failed))
    if not ck.build_harness() or not ck.driver():
        return
    out = ck.harness("c07", N.get(ck.tier, 400))
    if out is None:
        return
    cases = common.read_lines(os.path.join(out, "cases.txt"))
    impl = common.read_lines(os.path.join(out, "impl.txt"))
    srcs = common.read_lines(os.path.join(out, "src.txt"))
    if not ck.run_driver(["c07", "spec"], os.path.join(out, "cases.txt"), os.path.join(out, "model.txt")):
        return
    model = common.read_lines(os.path.join(out, "model.txt"))
    # the C++ layout (Layout.cppDump) of the struct declarations the MSL back end wrote
    if not ck.run_driver(["c07msl"], os.path.join(out, "msl.txt"), os.path.join(out, "mslout.txt")):
        return
    mslout = common.read_lines(os.path.join(out, "mslout.txt"))
    if len(mslout) == len(impl):
        impl = [a + " msl=" + m for a, m in zip(impl, mslout)]
    if not (len(cases) == len(impl) == len(model)):
        ck.tie_broken("c07-lines", "line count mismatch", "%d %d %d" % (len(cases), len(impl), len(model)))
        return
    for i, (c, a, b) in enumerate(zip(cases, impl, model)):
        nontrivial = ("(struct" in c[12:]) or ("(arr" in c) or any(
            (" %d %d)" % (x, y)) not in (" 0 0)",) for x, y in ())
        ck.case(c, nontrivial)
        if i < 3:
            ck.samples.append({"type_tree": c, "implementation": a, "model": b})
        if a != b:
            ck.violation({"kind": "layout-mismatch", "type_tree": c, "wgsl": srcs[i], "expected_spec": b, "observed": a,
                          "how": "offsets/spans/strides recorded by naga (ir=), decorated in SPIR-V (spv=), used as byte addresses by the "
                                 "HLSL stores to the listed paths (hlsl=), or implied by the C++ layout of the MSL struct declarations "
                                 "(msl=) differ from the WGSL layout"})
