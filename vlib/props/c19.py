"""C19 — meaning-neutral source edits leave the generated code unchanged."""
from vlib import common
import os, re

LEVEL = "proof"
EXPLANATION = (
    "Lean theorems (Naga.Props.C19) about a line-by-line model of lexer.go: scan_partition (every scanToken call splits "
    "its input into a non-empty consumed prefix and the rest — nothing lost, duplicated or reordered, incl. nested block "
    "comments, all number forms, operators), lexAuxG_fuel/lex_fuel (termination: the structural fuel never cuts a run "
    "short), lex_linear (token count <= length+1), lex_eof. The trivia-insensitivity theorem itself (lex_trivia) is NOT yet "
    "proved; that part is covered by correspondence + end-to-end edits. Tie (K): the real lexer (hook wgsl.VerifTokens) "
    "vs the model on ~150 edge strings, corpus shaders, generated programs, re-trivialised programs and random character "
    "soup — kind, lexeme, line and column of every token. End to end (S): for generated and corpus programs, (1) all "
    "inter-token trivia replaced by random whitespace / line comments / nested block comments (quotes, */ look-alikes, "
    "non-ASCII, CRLF), (2) every WGSL blankspace / line-break code point (VT, FF, NEL, LRM, RLM, LS, PS, lone CR after a "
    "line comment), (3) redundant parentheses + trailing commas, (4) consistent renaming of all user identifiers: the "
    "lowered module (deep dump), non-debug SPIR-V bytes and HLSL/MSL/GLSL text must be identical (names normalised for "
    "renaming) and acceptance unchanged.")
ASSUMPTIONS = [
    "Lean 4 kernel; axioms propext, Classical.choice, Quot.sound only",
    "unicode.IsLetter is a parameter of the model (the harness supplies the letter-ness of the non-ASCII code points of each case)",
    "model covers valid UTF-8 sources; invalid UTF-8 is exercised by C10 only",
    "parser-level theorems (parentheses produce no node, trailing commas, template '>>' splitting) and renaming invariance of the lowerer are not proved; covered end to end",
    "Go harness (generator, re-renderer, output comparison)",
]
N = {"quick": 600, "thorough": 12000}


def unq(s):
    return s.replace("\\n", "\n").replace('\\"', '"').replace("\\r", "\r").replace("\\t", "\t").replace("\\\\", "\\")


def run(ck):
    ck.rule = ("lexer: edge strings + corpus + generated + re-trivialised sources + random soup over a lexer-relevant alphabet; "
               "e2e: one generated (75%) or corpus (25%) program per round x {trivia, exotic blankspace, parens+commas, rename}; "
               "distinct by source text; non-trivial = more than 3 tokens")
    ck.trusted = ["Lean kernel", "axioms: propext, Classical.choice, Quot.sound", "Go harness and wgsl.VerifTokens hook"]
    if not ck.prove(["Naga.Props.C19", "Naga.Props.LexLiteral"]):
        ck.tie_broken("theorems", "Naga.Props.C19 no longer checks", str(ck.proof_failed))
    if not ck.build_harness() or not ck.driver():
        return
    out = ck.harness("c19", N.get(ck.tier, 600), timeout=7000)
    if out is None:
        return
    if ck.run_driver(["c19"], os.path.join(out, "cases.txt"), os.path.join(out, "model.txt")):
        cases = common.read_lines(os.path.join(out, "cases.txt"))
        impl = common.read_lines(os.path.join(out, "impl.txt"))
        model = common.read_lines(os.path.join(out, "model.txt"))
        if not (len(cases) == len(impl) == len(model)):
            ck.tie_broken("c19-lines", "line count mismatch", "%d %d %d" % (len(cases), len(impl), len(model)))
        else:
            for i, (c, a, b) in enumerate(zip(cases, impl, model)):
                ck.case(c, nontrivial=a.count(" ; ") > 3)
                if i in (5, 40, 200):
                    ck.samples.append({"case": c[:200], "implementation": a[:300], "model": b[:300]})
                if a != b:
                    ck.violation({"kind": "lexer-mismatch", "case": c[:5000], "expected_model": b[:3000], "observed": a[:3000],
                                  "how": "token stream of the real lexer differs from the lexer model"}, found_input=False)
    p = os.path.join(out, "e2e.txt")
    kinds = {}
    if os.path.exists(p):
        for l in common.read_lines(p):
            m = re.match(r'(\S+(?: "[^"]*")?) "((?:[^"\\]|\\.)*)" "((?:[^"\\]|\\.)*)" "((?:[^"\\]|\\.)*)"$', l)
            if not m:
                m2 = re.match(r'(blankspace:"(?:[^"\\]|\\.)*") "((?:[^"\\]|\\.)*)" "((?:[^"\\]|\\.)*)" "((?:[^"\\]|\\.)*)"$', l)
                m = m2
            if not m:
                ck.tie_broken("c19-e2e-parse", "cannot parse e2e line", l[:300])
                continue
            kind, d, before, after = m.group(1), m.group(2), m.group(3), m.group(4)
            ck.case(kind + after, nontrivial=True)
            kinds[kind.split(":")[0]] = kinds.get(kind.split(":")[0], 0) + 1
            if d:
                fid = None
                for k in ck.known:
                    rx = k.get("match", {}).get("difference_regex")
                    if rx and re.search(rx, unq(d)):
                        fid = k["id"]
                ck.violation({"kind": "neutral-edit-changes-output", "finding": fid, "edit": kind, "difference": d,
                              "wgsl_before": unq(before), "wgsl_after": unq(after),
                              "how": "a meaning-neutral edit changed acceptance, the lowered module or a backend's output"},
                             found_input=True)
    ck.extra["e2e_edits"] = kinds
