"""C03 — HLSL output computes what the WGSL program means."""
from vlib import clike

LEVEL = "proof"
DIALECT = "hlsl"
EXPLANATION = ("Lean theorems (Naga.Props.C03 + Naga.Props.C15 helpers): for every binary operator x operand kind (i32, u32, f32, bool) the pattern the HLSL writer emits (CEmit.selBin .hlsl: asint(asuint(a) op asuint(b)) for signed + - *, naga_div / naga_mod calls, plain operators elsewhere) evaluates under HLSL semantics (Sem.COps: usual arithmetic conversions, masked shifts, signed overflow and division by zero undefined) to the WGSL value for ALL operand pairs and never reaches undefined behaviour (hlsl_binop_sound = wrapping_binop_sound); naga_div / naga_mod / naga_neg bodies are total and WGSL-correct on all 2^64 / 2^32 operands, incl. the proof that lhs - (lhs / d) * d never overflows (mod_core); min/max/~; abs only _partial with the INT_MIN witness. Regenerated tie (R, Naga.Tie.CEmit): on every run 224 one-operator programs per dialect x option sets are compiled by the real writers, the expression written for the result and the bodies of every naga_* helper are parsed by an independent C-like parser into Lean terms, and the kernel re-checks them against the model (patterns_match_model, helpers_match_model). Program level (K/S): the real HLSL text of generated programs and of every operator probe is parsed and executed by a Lean interpreter of the HLSL subset (byte-address Load/Store, overloads, inout, switch fall-through, intrinsics; undefined behaviour is an error) against the WGSL reference evaluator on the generator's own AST; any difference, undefined behaviour, ill-formed text or text outside the grammar is a concrete failing input, shrunk by the AST reducer. Statement-level / storage-address emitter models are not proved (executed per instance; byte offsets of struct stores are checked by C07).")
ASSUMPTIONS = [
    "Lean 4 kernel; axioms propext, Classical.choice, Quot.sound only",
    "Sem.COps / Sem.CLike are my reading of the HLSL language documents (trusted): signed overflow undefined; integer /0, %0 and INT_MIN/-1 "
    "undefined; shift amounts masked to 5 bits; float->int conversion of NaN / out-of-range values undefined; uninitialised variables are poison",
    "Sem.Ops / Sem.Wgsl are my reading of WGSL (trusted); floats through Lean Float32 (+ - * / and comparisons only, small integral values)",
    "the C-like parser (harness/cparse.go) is trusted to read the text as a C-family front end would; anything it cannot read is reported, never skipped",
    "one invocation; buffers are array<u32> (struct layouts: C07); no textures/atomics/barriers/subgroups; float builtins other than abs/min/max not executed",
    "theorems cover scalar operands; vector probes are tied syntactically (same pattern with vector type names) and executed, not proved",
]
RULE = ('executed operator probes: every (operator | integer builtin) x (i32, u32) x (scalar, vec3) one-operator program is compiled by the real back end under the default and one random option set and run on 10 boundary-heavy operand vectors (0, 1, 31, 32, 33, INT_MAX, INT_MIN, INT_MIN+1, -1, -2, 65535, 65536 + random); generated programs: the type-directed generator of C01 (helpers with value and pointer parameters, let/var/const, if/switch/loop/for/while/continuing/break-if, compound assignment, swizzles, constructors, integer builtins, conversions, private globals, structs/arrays) under random hlsl.Options (ShaderModel 5.0-6.2, RestrictIndexing, ForceLoopBounding, ZeroInitializeWorkgroupMemory); 16-word input/output buffers with boundary and random contents; 80% of the programs avoid the recorded defects of this back end, 20% enable one risky feature each; distinct by source text + options; non-trivial = has control flow or a helper')


def run(ck):
    ck.rule = RULE
    clike.run(ck, DIALECT, "Naga.Props.C03", glsl_ub_excluded=(DIALECT == "glsl"))
