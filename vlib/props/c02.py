"""C02 — every emitted SPIR-V module is structurally valid."""
from vlib import common
import os, re

LEVEL = "proof"
EXPLANATION = (
    "Lean theorem (Naga.Props.C02 decode_encode): the SPIR-V physical-layout decoder inverts the encoder for every "
    "instruction list within the 16-bit word-count guard (witness that the guard is necessary). The structural rules "
    "themselves are decided per instance by an executable validator written in Lean from the SPIR-V specification "
    "(Naga.Sem.SpvValid): header/version/bound, logical-layout section order, single definition of every id, definitions "
    "dominate uses (dominator computation over the real CFG), unique non-aggregate types, block termination, merge "
    "instruction placement and targets, branch targets, operand typing rules for the Core opcodes (arithmetic, "
    "comparisons, load/store/access-chain, select, bitcast, composites, conversions, constants), Block/Offset/"
    "ArrayStride/MatrixStride/DescriptorSet/Binding decorations on buffer resources, Shader/Float16/Float64/Int64 "
    "capabilities and the storage-buffer extension before 1.3. It runs on every real binary for the corpus and for "
    "generated programs under random version 1.0-1.6 x Debug x ForceLoopBounding x ForcePointSize x AdjustCoordinateSpace "
    "x bounds-check policies. A binary that fails a rule is the concrete failing input. Builder/type-cache invariants "
    "and blocks_terminated for the emitter model are not proved (validated per instance).")
ASSUMPTIONS = [
    "Lean 4 kernel; axioms propext, Classical.choice, Quot.sound only",
    "SpvValid is my transcription of the SPIR-V / Vulkan-environment rules; operand typing and def-use checks cover the Core "
    "opcodes, other opcodes (image, atomic, ray-query, subgroup) are checked for layout/termination only",
    "the back end may raise the header version above the requested one (requireVersion); the validator accepts >= requested",
]
N = {"quick": 300, "thorough": 6000}


def unq(s):
    return s.replace("\\n", "\n").replace('\\"', '"').replace("\\\\", "\\")


def run(ck):
    ck.rule = ("corpus shaders (40 per quick run, all x4 thorough) and generated compute modules, each under a random option "
               "set; distinct by (source, options); non-trivial = binary has more than 60 instructions")
    ck.trusted = ["Lean kernel", "axioms: propext, Classical.choice, Quot.sound", "SpvValid rule transcription", "Go harness"]
    if not ck.prove(["Naga.Props.C02"]):
        ck.tie_broken("theorems", "Naga.Props.C02 no longer checks", str(ck.proof_failed))
    if not ck.build_harness() or not ck.driver():
        return
    witnesses = [k["match"]["source"].split(":", 1)[1] for k in ck.known if k.get("match", {}).get("source", "").startswith("corpus:")]
    cdir = os.path.join(common.VERIF, "corpus", "C02")
    if os.path.isdir(cdir):
        witnesses += sorted(os.path.join(cdir, f) for f in os.listdir(cdir) if f.endswith(".wgsl"))
    out = ck.harness("c02", N.get(ck.tier, 300), extra_args=witnesses, timeout=7000)
    if out is None:
        return
    if not ck.run_driver(["sem"], os.path.join(out, "cases.txt"), os.path.join(out, "model.txt")):
        return
    res = common.read_lines(os.path.join(out, "model.txt"))
    tags = common.read_lines(os.path.join(out, "tags.txt"))
    srcs = common.read_lines(os.path.join(out, "src.txt"))
    cases = common.read_lines(os.path.join(out, "cases.txt"))
    reported = set()
    for i, (r, t, s, c) in enumerate(zip(res, tags, srcs, cases)):
        ck.case(t + s, nontrivial=c.count(" ") > 400)
        if i in (0, 60):
            ck.samples.append({"source_and_options": t, "result": r[:300], "binary_words": c.count(" ")})
        if r == "valid":
            continue
        name = t.split(" ")[0]
        rules = re.sub(r"%[0-9]+", "%N", r)
        fid = None
        for k in ck.known:
            mt = k.get("match", {})
            if mt.get("source") == name and re.search(mt.get("error_regex", "$^"), r) and re.search(mt.get("wgsl_regex", ""), s):
                fid = k["id"]
        key = (name, rules[:80])
        if fid is None and key in reported:
            continue
        if fid is None:      # a listed finding never hides a later unlisted violation of the same class
            reported.add(key)
        ck.violation({"kind": "invalid-spirv", "finding": fid, "source_and_options": t, "violated_rules": r[:3000],
                      "wgsl": unq(s[1:-1])[:6000],
                      "how": "the SPIR-V binary returned by the back end violates a structural rule of the specification"},
                     found_input=True)
