#!/bin/sh
# Build the framework from files on disk only (offline).
set -e
cd "$(dirname "$0")"
export GOFLAGS=-mod=mod GOPROXY=off
unset GOSUMDB || true
mkdir -p .work
(cd lean && lake build)
(cd harness && go build -tags verif -o ../.work/vh-setup . && rm -f ../.work/vh-setup)
echo setup ok
